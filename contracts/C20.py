"""C20 -- bandwidth limits are never exceeded and never stall.  DESIGN.md section 4 / C20.

Ghost state per limiter and reference instant s:  W = bytes granted since s,  F = "a refill that stamped
last_refill happened since s",  bs = bucket at s,  ts = clock at s.   Inductive window invariant J:
    not F  =>  (W == 0 and b == bs)  or  (W == CHUNK and bs == L and b == L - CHUNK)
    F      =>  r >= ts  and  W + b <= L + SLACK + L * (r - ts)
with SLACK = 0 for the property as stated ("one second's worth of burst" = L bytes).  Every operation of the
limiter is executed from the real source under J and must re-establish J; J and r <= clock give
    W <= L + SLACK + L * (clock - ts)          (C20.window)."""
from __future__ import annotations

import ast
import z3

from pyvc.ctx import Ctx, Explorer, Unsupported, PathAbort
from pyvc.interp import Interp
from pyvc.values import Sym, Obj, PyRaise, Native, unbox, z3int, z3real, ReturnEx, BreakEx, ContinueEx
from pyvc import natives as N
from pyvc import aio as A
from contracts.common import mk, cls, func, new, run, enum, Recorder, Stub, collect, std_result

RL = 'network.rate_limiter'
NET = 'network.network'
CHUNK = 128

ASSUMPTIONS = [
    'A-float: machine floats are treated as reals (rounding ignored); int() truncates toward zero',
    'time.monotonic() is non-decreasing and never earlier than a stored last_refill',
    'asyncio.sleep(x) lets the clock advance by at least x',
    'limits are >= 1 KiB/s (settings store KiB/s; 0 means unlimited)',
    'A-atomic: no await between refill() and the bucket decrement inside take_tokens (checked: the yield log of the granting path is empty)',
]
TRUSTED_BASE = ['pyvc engine', 'z3 (nonlinear real arithmetic for the (L-b)*dt products)']
NOT_DECIDED = ['bounded waiting for each of several competing waiters (event-loop fairness)',
               'window bound across k limit changes beyond "copy_tokens never mints tokens" (one extra chunk per change is possible)',
               'a connection sleeping inside the old limiter object when the limit changes']


def limiter(it, ctx, tag=''):
    L = z3.Int('L' + tag)
    b = z3.Int('b' + tag)
    r = z3.Real('r' + tag)
    ctx.assume(L >= 1024)
    o = new(it, RL, 'LimitedRateLimiter', limit_bps=Sym(L, 'int'), bucket=Sym(b, 'int'), last_refill=Sym(r, 'real'))
    return o, L, b, r


def install_clock(it, ctx, lower):
    """time.monotonic(): returns a fresh clock reading >= every reading so far (and >= lower)."""
    state = {'last': lower, 'reads': []}

    def mono(it2, a, k):
        c = ctx.fresh_real('clock')
        ctx.assume(c >= state['last'])
        state['last'] = c
        state['reads'].append(c)
        return Sym(c, 'real')
    it.natives['time.monotonic'] = Native('time.monotonic', mono)
    return state


def fld(o, name):
    v = o.attrs[name]
    return z3int(v) if name != 'last_refill' else z3real(v)


def J(W, F, bs, ts, L, b, r, slack):
    return z3.And(
        z3.Implies(z3.Not(F), z3.Or(z3.And(W == 0, b == bs), z3.And(W == CHUNK, bs == L, b == L - CHUNK))),
        z3.Implies(F, z3.And(r >= ts, z3.ToReal(W + b) <= z3.ToReal(L + slack) + z3.ToReal(L) * (r - ts))))


def ghost(ctx):
    W, bs = z3.Int('W'), z3.Int('bs')
    F = z3.Bool('F')
    ts = z3.Real('ts')
    return W, F, bs, ts


def prove_refill(src_root, ex: Explorer, slack: int, suffix: str):
    def path(ctx: Ctx):
        it = mk(src_root, ctx)
        o, L, b, r = limiter(it, ctx)
        W, F, bs, ts = ghost(ctx)
        ctx.assume(z3.And(b >= 0, b <= L, bs >= 0, bs <= L, W >= 0))
        ctx.assume(J(W, F, bs, ts, L, b, r, slack))
        wcls = ''
        if slack == 0 and ctx.branch(z3.And(z3.Not(F), W == CHUNK)):
            wcls = '[one chunk granted from a full bucket whose refill stamp is stale]'
        clk = install_clock(it, ctx, z3.If(r >= ts, r, ts))       # now >= last_refill and >= ts
        try:
            res = it.call(it.getattr(o, 'refill'), [], {})
        except PyRaise as pr:
            ctx.fail('C20.refill.no-raise', repr(pr.exc))
            return
        b2, r2, L2 = fld(o, 'bucket'), fld(o, 'last_refill'), fld(o, 'limit_bps')
        stamped = len(clk['reads']) > 0 and ctx.valid(r2 == clk['reads'][-1])
        F2 = z3.BoolVal(True) if stamped else F
        ctx.prove('C20.inv.cap#refill', z3.And(b2 >= 0, b2 <= L, L2 == L))
        ctx.prove(f'C20.refill.potential{suffix}', z3.ToReal(b2 - b) <= z3.ToReal(L) * (r2 - r) if stamped else b2 == b,
                  'tokens credited by a refill never exceed limit * elapsed time')
        ctx.prove(f'C20.refill.window-inv{suffix}{wcls}', J(W, F2, bs, ts, L, b2, r2, slack),
                  'the window invariant J is not re-established by refill()')
        ctx.prove('C20.refill.clock', r2 >= r)
    ex.run(path, 'refill' + suffix)


def prove_take(src_root, ex: Explorer, slack: int, suffix: str):
    """One iteration of take_tokens' loop from an arbitrary state satisfying J (loop contract: J is the invariant)."""
    def path(ctx: Ctx):
        it = mk(src_root, ctx)
        o, L, b, r = limiter(it, ctx)
        W, F, bs, ts = ghost(ctx)
        ctx.assume(z3.And(b >= 0, b <= L, bs >= 0, bs <= L, W >= 0))
        ctx.assume(J(W, F, bs, ts, L, b, r, slack))
        wcls = ''
        if slack == 0 and ctx.branch(z3.And(z3.Not(F), W == CHUNK)):
            wcls = '[one chunk granted from a full bucket whose refill stamp is stale]'
        clk = install_clock(it, ctx, z3.If(r >= ts, r, ts))
        slept = []
        it.aio.sleep_hook = lambda it2, x: slept.append(x)
        state = {}

        def loop_spec(it2, node, env):
            # one iteration of the polling loop, whatever its form: `while True:` with the grant inside, or `while <bucket is empty>:` with
            # the grant after the loop.  The guard is evaluated (it may be the refill itself); a false guard leaves the loop.
            # an ARBITRARY iteration: numeric locals that the loop body itself assigns (a growing delay, a counter) hold arbitrary values
            import ast as _ast
            assigned = {t.id for n in _ast.walk(_ast.Module(body=node.body, type_ignores=[])) if isinstance(n, (_ast.Assign, _ast.AugAssign, _ast.AnnAssign))
                        for t in (n.targets if isinstance(n, _ast.Assign) else [n.target]) if isinstance(t, _ast.Name)}
            for k_ in assigned:
                v_ = env.vars.get(k_)
                if isinstance(v_, (int, float)) and not isinstance(v_, bool):
                    h = ctx.fresh_real('carried_' + k_)
                    ctx.assume(h >= 0)
                    env.vars[k_] = Sym(h, 'real')
            if not it2.decide(it2.eval(node.test, env)):
                return
            try:
                it2.exec_block(node.body, env)
            except ContinueEx:
                pass
            except BreakEx:
                return
            state['iterated'] = True
            raise ReturnEx('<next-iteration>')
        it.loop_specs[(f'{RL}:LimitedRateLimiter.take_tokens', 0)] = loop_spec
        try:
            res = run(it, it.getattr(o, 'take_tokens'))
        except PyRaise as pr:
            ctx.fail('C20.take.no-raise', repr(pr.exc))
            return
        b2, r2 = fld(o, 'bucket'), fld(o, 'last_refill')
        stamped = len(clk['reads']) > 0 and ctx.valid(r2 == clk['reads'][-1])
        F2 = z3.BoolVal(True) if stamped else F
        if res == '<next-iteration>':
            # no grant: slept once, granted nothing
            ctx.prove('C20.take.wait', z3.BoolVal(len(slept) == 1 and it.aio.yields == ['asyncio.sleep']))
            # bounded wait: the polling interval of an iteration is bounded by a constant (C20.progress.* credits a waiter per INTERVAL)
            interval = unbox(it.module_global(it.source.module(RL), 'INTERVAL'))
            ctx.prove('C20.take.wait-interval-bounded', z3real(slept[0]) <= z3.RealVal(str(interval)) if slept else z3.BoolVal(False),
                      f'an iteration sleeps {slept!r}: with a delay that grows from iteration to iteration a request waits arbitrarily long although tokens are credited')
            ctx.prove(f'C20.take.window-inv{suffix}[wait]{wcls}', J(W, F2, bs, ts, L, b2, r2, slack))
            ctx.prove('C20.inv.cap#take[wait]', z3.And(b2 >= 0, b2 <= L))
            return
        g = z3int(res)
        ctx.prove('C20.take.grant', z3.And(g == CHUNK, b2 >= 0), 'grants exactly one chunk and only if the bucket held it')
        ctx.prove('C20.take.atomic', z3.BoolVal(it.aio.yields == []), 'refill and decrement must be one atomic section')
        ctx.prove('C20.inv.cap#take[grant]', z3.And(b2 >= 0, b2 <= L))
        ctx.prove(f'C20.take.window-inv{suffix}[grant]{wcls}', J(W + g, F2, bs, ts, L, b2, r2, slack),
                  'after a grant the window invariant J does not hold: more than the allowed burst can be granted')
    ex.run(path, 'take' + suffix)


def prove_window_lemma(src_root, ex: Explorer, slack: int, suffix: str):
    def path(ctx: Ctx):
        W, F, bs, ts = ghost(ctx)
        L, b = z3.Int('L'), z3.Int('b')
        r, t = z3.Real('r'), z3.Real('t')
        ctx.assume(z3.And(L >= 1024, b >= 0, b <= L, bs >= 0, bs <= L, W >= 0, r <= t, t >= ts))
        ctx.assume(J(W, F, bs, ts, L, b, r, slack))
        ctx.prove(f'C20.window{suffix}', z3.ToReal(W) <= z3.ToReal(L + slack) + z3.ToReal(L) * (t - ts))
        # J holds initially at the reference instant
        ctx.prove(f'C20.window.init{suffix}', z3.substitute(J(W, F, bs, ts, L, b, r, slack),
                                                             (W, z3.IntVal(0)), (F, z3.BoolVal(False)), (bs, b)))
    ex.run(path, 'window' + suffix)


def prove_progress(src_root, ex: Explorer):
    """Bounded wait with up to 4 connections on one limiter.  Every waiter sleeps at least INTERVAL between two of its refills, so among
    any 5 consecutive refills two are by the same waiter: 4 consecutive gaps add up to at least INTERVAL and one of them is at least
    INTERVAL / 4.  The obligation: a refill after such a gap credits AT LEAST ONE token to an empty bucket (bucket < MIN_BUCKET_SIZE), for
    every limit >= 1 KiB/s - int() drops the fraction and the stamp is advanced regardless, so a refill that credits nothing loses the
    elapsed time.  Then the bucket grows by >= 1 per round of INTERVAL and a waiter is served after at most MIN_BUCKET_SIZE rounds.
    INTERVAL and MIN_BUCKET_SIZE are read from the source; refill() is executed symbolically (non-linear real arithmetic)."""
    def path(ctx: Ctx):
        it = mk(src_root, ctx)
        o, L, b, r = limiter(it, ctx)
        interval = unbox(it.module_global(it.source.module(RL), 'INTERVAL'))
        mbs = unbox(it.class_attr(cls(it, RL, 'LimitedRateLimiter'), 'MIN_BUCKET_SIZE'))
        ctx.prove('C20.progress.constants', isinstance(interval, (int, float)) and interval > 0 and isinstance(mbs, int) and mbs >= 1)
        if not isinstance(interval, (int, float)):
            return
        from fractions import Fraction
        q = Fraction(str(interval)) / 4
        gap = z3.Real('gap')
        ctx.assume(z3.And(b >= 0, b < mbs, gap >= z3.RealVal(str(q))))
        now = r + gap
        it.natives['time.monotonic'] = Native('time.monotonic', lambda it2, a, k: Sym(now, 'real'))
        it.call(it.getattr(o, 'refill'), [], {})
        b2 = fld(o, 'bucket')
        ctx.prove('C20.progress.four-waiters', z3.Or(b2 >= b + 1, b2 == L),
                  f'with 4 connections waiting on one limiter a refill after a gap of INTERVAL/4 = {float(q)} s can credit 0 tokens (and still '
                  'advances last_refill): the bucket never reaches MIN_BUCKET_SIZE and every request for tokens waits forever')
    ex.run(path, 'progress')


def prove_misc(src_root, ex: Explorer):
    def add_tokens(ctx: Ctx):
        it = mk(src_root, ctx)
        o, L, b, r = limiter(it, ctx)
        ctx.assume(z3.And(b >= 0, b <= L))
        amt = z3.Int('amt')
        ctx.assume(amt >= 0)
        it.call(it.getattr(o, 'add_tokens'), [Sym(amt, 'int')], {})
        b2 = fld(o, 'bucket')
        ctx.prove('C20.inv.cap#add_tokens', z3.And(b2 >= 0, b2 <= L))
        ctx.prove('C20.add_tokens.spec', b2 == z3.If(b + amt > L, L, b + amt))
    ex.run(add_tokens, 'add_tokens')

    def copy_tokens(ctx: Ctx):
        it = mk(src_root, ctx)
        # the library always copies into a freshly constructed limiter
        Lk = z3.Int('Lk')
        ctx.assume(Lk >= 1)
        o = it.call(cls(it, RL, 'LimitedRateLimiter'), [Sym(Lk, 'int')], {})
        other, L0, b0, r0 = limiter(it, ctx, '0')
        ctx.assume(z3.And(b0 >= 0, b0 <= L0))
        ctx.prove('C20.init.state', z3.And(fld(o, 'bucket') == 0, fld(o, 'limit_bps') == 1024 * Lk))
        it.call(it.getattr(o, 'copy_tokens'), [other], {})
        b2, r2 = fld(o, 'bucket'), fld(o, 'last_refill')
        ctx.prove('C20.copy.no-mint', z3.And(b2 <= b0, b2 <= 1024 * Lk, b2 >= 0, r2 == r0),
                  'changing the limit must not create tokens or move the refill stamp')
        ctx.prove('C20.copy.keeps-tokens', b2 == z3.If(b0 > 1024 * Lk, 1024 * Lk, b0))
    ex.run(copy_tokens, 'copy_tokens')

    def unlimited(ctx: Ctx):
        it = mk(src_root, ctx)
        o = it.call(cls(it, RL, 'UnlimitedRateLimiter'), [], {})
        res = run(it, it.getattr(o, 'take_tokens'))
        ctx.prove('C20.unlimited.no-throttle', z3.BoolVal(it.aio.yields == [] and unbox(res) == 8192),
                  'an unlimited limiter must grant immediately')
        k = z3.Int('k')
        r1 = it.call(it.class_attr(cls(it, RL, 'RateLimiter'), 'create_limiter'), [0], {})
        ctx.prove('C20.create_limiter[0]', z3.BoolVal(r1.cls.name == 'UnlimitedRateLimiter'))
        ctx.assume(k >= 1)
        r2 = it.call(it.class_attr(cls(it, RL, 'RateLimiter'), 'create_limiter'), [Sym(k, 'int')], {})
        ctx.prove('C20.create_limiter[k]', z3.And(z3.BoolVal(r2.cls.name == 'LimitedRateLimiter'), fld(r2, 'limit_bps') == 1024 * k))
    ex.run(unlimited, 'unlimited')

    def progress(ctx: Ctx):
        it = mk(src_root, ctx)
        o, L, b, r = limiter(it, ctx)
        ctx.assume(z3.And(b >= 0, b <= L))
        if not it.decide(it.call(it.getattr(o, 'is_empty'), [], {})):
            raise PathAbort()          # only states in which take_tokens would wait
        interval = it.module_global(it.source.module(RL), 'INTERVAL')
        c = ctx.fresh_real('now')
        ctx.assume(c >= r + z3real(interval))
        it.natives['time.monotonic'] = Native('time.monotonic', lambda it2, a, k: Sym(c, 'real'))
        it.call(it.getattr(o, 'refill'), [], {})
        b2 = fld(o, 'bucket')
        still_empty = it.truth(it.call(it.getattr(o, 'is_empty'), [], {}))
        still_empty = z3.BoolVal(still_empty) if isinstance(still_empty, bool) else still_empty
        ctx.prove('C20.progress', z3.Or(b2 >= b + z3.ToInt(z3.RealVal(1024 - CHUNK) * z3real(interval)), z3.Not(still_empty)),
                  'a waiter that slept one INTERVAL gains at least (1024-128)*INTERVAL tokens or stops waiting: the wait is bounded')
        ctx.prove('C20.progress.positive', z3.BoolVal(isinstance(interval, (int, float)) and interval > 0 and (1024 - CHUNK) * interval >= 1))

    ex.run(progress, 'progress')

    def equal_stamps(ctx: Ctx):
        it = mk(src_root, ctx)
        o, L, b, r = limiter(it, ctx)
        ctx.assume(z3.And(b >= 0, b < L))
        it.natives['time.monotonic'] = Native('time.monotonic', lambda it2, a, k: Sym(r, 'real'))
        it.call(it.getattr(o, 'refill'), [], {})
        ctx.prove('C20.refill.equal-timestamps', fld(o, 'bucket') == b, 'equal consecutive clock readings add nothing and lose nothing')
    ex.run(equal_stamps, 'equal-stamps')


def prove_network(src_root, ex: Explorer):
    """All file connections share ONE limiter object per direction, also after a limit change."""
    def path(ctx: Ctx):
        it = mk(src_root, ctx)
        which = ['upload', 'download'][ctx.choose(2, 'direction')]
        net = new(it, NET, 'Network')
        c1 = Obj(cls(it, 'network.connection', 'PeerConnection'))
        c2 = Obj(cls(it, 'network.connection', 'PeerConnection'))
        old, L0, b0, r0 = limiter(it, ctx, '0')
        ctx.assume(z3.And(b0 >= 0, b0 <= L0))
        for c in (c1, c2):
            c.attrs['upload_rate_limiter'] = old
            c.attrs['download_rate_limiter'] = old
            c.attrs['connection_type'] = 'F'
            c.attrs['state'] = enum(it, 'network.connection', 'ConnectionState', 'CONNECTED')
        # one file connection is transferring, the other one still negotiates ticket / offset: both are given the new limiter
        c1.attrs['connection_state'] = enum(it, 'network.connection', 'PeerConnectionState', 'TRANSFERRING')
        c2.attrs['connection_state'] = enum(it, 'network.connection', 'PeerConnectionState', 'NEGOTIATING_TRANSFER')
        net.attrs.update(peer_connections=[c1, c2], _upload_rate_limiter=old, _download_rate_limiter=old)
        k = z3.Int('k')
        ctx.assume(k >= 1)
        it.call(it.getattr(net, f'set_{which}_speed_limit'), [Sym(k, 'int')], {})
        new_l = net.attrs[f'_{which}_rate_limiter']
        ok = new_l is not old and c1.attrs[f'{which}_rate_limiter'] is new_l and c2.attrs[f'{which}_rate_limiter'] is new_l
        ctx.prove(f'C20.network.set_{which}_speed_limit.shared', z3.BoolVal(ok),
                  'every registered connection must use the one new limiter object')
        if ok:
            ctx.prove(f'C20.network.set_{which}_speed_limit.carry',
                      z3.And(fld(new_l, 'bucket') <= b0, fld(new_l, 'last_refill') == r0, fld(new_l, 'limit_bps') == 1024 * k))
        ctx.prove(f'C20.network.set_{which}_speed_limit.atomic', z3.BoolVal(it.aio.yields == []))
    ex.run(path, 'network')

    def load(ctx: Ctx):
        """load_speed_limits() (settings changed): BOTH limits are applied with the configured values, also 0 (= remove the limit)"""
        it = mk(src_root, ctx)
        d, u = [0, 50][ctx.choose(2, 'download')], [0, 30][ctx.choose(2, 'upload')]
        limits = Stub('limits', download_speed_kbps=d, upload_speed_kbps=u)
        net = new(it, NET, 'Network', _settings=Stub('settings', network=Stub('network', limits=limits)))
        calls = []
        it.hooks[f'{NET}:Network.set_download_speed_limit'] = lambda it2, f, a, k: calls.append(('download', a[1]))
        it.hooks[f'{NET}:Network.set_upload_speed_limit'] = lambda it2, f, a, k: calls.append(('upload', a[1]))
        it.call(it.getattr(net, 'load_speed_limits'), [], {})
        ctx.prove(f'C20.network.load_speed_limits[download={d},upload={u}]', sorted(calls) == [('download', d), ('upload', u)],
                  f'configured limits (download {d}, upload {u}) were applied as {calls}: a removed or changed limit is not taken over')
    ex.run(load, 'load-limits')

    def init_limiters(ctx: Ctx):
        """Network.__init__: the limiter of each direction is created from the configured limit of THAT direction.  Only the statements of
        __init__ that assign the two limiter attributes are executed (with the real create_limiter and any helper they call)."""
        import ast as _ast
        it = mk(src_root, ctx)
        ncls = cls(it, NET, 'Network')
        init = it.class_attr(ncls, '__init__')
        fnode = init.node if hasattr(init, 'node') else init.func.node
        limits = Stub('limits', upload_speed_kbps=20, download_speed_kbps=50)
        net = new(it, NET, 'Network', _settings=Stub('settings', network=Stub('network', limits=limits)))
        stmts = [st for st in fnode.body if isinstance(st, (_ast.Assign, _ast.AnnAssign)) and getattr(st, 'value', None) is not None
                 and any(a in _ast.unparse(st) for a in ('_upload_rate_limiter', '_download_rate_limiter'))]
        if not stmts:
            raise Unsupported('Network.__init__: the assignments of the rate limiters were not found')
        from pyvc.interp import Env
        pf = init if hasattr(init, 'node') else init.func
        env = Env(pf, pf.module)
        env.vars['self'] = net
        env.vars['settings'] = net.attrs['_settings']
        for st in stmts:
            it.exec_stmt(st, env)
        up, down = net.attrs.get('_upload_rate_limiter'), net.attrs.get('_download_rate_limiter')
        ok = isinstance(up, Obj) and isinstance(down, Obj) and unbox(up.attrs.get('limit_bps')) == 20 * 1024 and unbox(down.attrs.get('limit_bps')) == 50 * 1024
        ctx.prove('C20.network.init-limiters', ok, f'upload limit 20 KiB/s, download limit 50 KiB/s configured: upload limiter '
                  f'{unbox(up.attrs.get("limit_bps")) if isinstance(up, Obj) else up!r} B/s, download limiter {unbox(down.attrs.get("limit_bps")) if isinstance(down, Obj) else down!r} B/s')
    ex.run(init_limiters, 'init-limiters')

    def finalize(ctx: Ctx):
        it = mk(src_root, ctx)
        net = new(it, NET, 'Network')
        up, _, _, _ = limiter(it, ctx, 'u')
        down, _, _, _ = limiter(it, ctx, 'd')
        net.attrs.update(_upload_rate_limiter=up, _download_rate_limiter=down)
        c = Obj(cls(it, 'network.connection', 'PeerConnection'))
        c.attrs.update(connection_type='F', obfuscated=False, _reader_task=None)
        c.attrs['connection_state'] = None
        try:
            it.call(it.getattr(net, '_finalize_peer_connection'), [c], {})
        except (PyRaise, Unsupported) as e:
            ctx.fail('C20.network.finalize.shared', f'{e!r}')
            return
        ctx.prove('C20.network.finalize.shared',
                  z3.BoolVal(c.attrs.get('upload_rate_limiter') is up and c.attrs.get('download_rate_limiter') is down),
                  'a new file connection must be given the shared limiters')
    ex.run(finalize, 'finalize')


def prove_connection_use(src_root, ex: Explorer):
    """receive_file / send_file move at most the granted number of bytes per chunk."""
    CONN = 'network.connection'

    def recv(ctx: Ctx):
        it = mk(src_root, ctx)
        c = Obj(cls(it, CONN, 'PeerConnection'))
        grant = z3.Int('grant')
        ctx.assume(grant >= 1)
        asked = []
        lim = Stub('limiter', take_tokens=Recorder('take_tokens', ret=Sym(grant, 'int'), is_async=True))
        c.attrs['download_rate_limiter'] = lim

        def c_receive_data(it2, f, args, kwargs):
            asked.append(args[1])
            return A.SimpleAwaitable(it2.aio, 'receive_data', lambda it3: None)
        it.hooks[f'{CONN}:PeerConnection.receive_data'] = c_receive_data
        run(it, it.getattr(c, 'receive_file'), Stub('fh'), Sym(z3.Int('size'), 'int'))
        # one iteration of the receive loop (the read returns EOF); nothing at all is read when nothing is missing (size <= 0)
        ctx.prove('C20.receive_file.reads-at-most-grant', z3.BoolVal(not asked) if len(asked) != 1 else z3int(asked[0]) <= grant,
                  'a chunk larger than the number of granted tokens is read')
        ctx.prove('C20.receive_file.asks-limiter-per-chunk', len(lim.attrs['take_tokens'].calls) == len(asked),
                  'every read must be preceded by its own take_tokens()')
    ex.run(recv, 'receive_file-grant')

    def recv_iteration(ctx: Ctx):
        """an ARBITRARY iteration of the receive loop: every integer local the loop carries (they are 0 when the loop is first reached) holds
        an arbitrary non-negative value; the read of this iteration still asks for at most what THIS take_tokens() granted - credit may
        not be carried from one iteration to the next outside the bucket (the bucket's cap is what bounds a burst)"""
        from pyvc.interp import ContinueEx, BreakEx, ReturnEx
        it = mk(src_root, ctx)
        c = Obj(cls(it, CONN, 'PeerConnection'))
        grant = z3.Int('grant')
        ctx.assume(grant >= 1)
        asked = []
        lim = Stub('limiter', take_tokens=Recorder('take_tokens', ret=Sym(grant, 'int'), is_async=True))
        c.attrs['download_rate_limiter'] = lim

        def c_receive_data(it2, f, args, kwargs):
            asked.append(args[1])
            return A.SimpleAwaitable(it2.aio, 'receive_data', lambda it3: None)
        it.hooks[f'{CONN}:PeerConnection.receive_data'] = c_receive_data

        def loop(it2, node, env):
            carried = [k for k, v in env.vars.items() if isinstance(v, int) and not isinstance(v, bool) and v == 0]
            for k in carried:
                h = ctx.fresh_int('carried_' + k)
                ctx.assume(h >= 0)
                env.vars[k] = Sym(h, 'int')
            if not it2.decide(it2.eval(node.test, env)):
                return
            try:
                it2.exec_block(node.body, env)
            except (ContinueEx, BreakEx):
                pass
        it.loop_specs[(f'{CONN}:PeerConnection.receive_file', 0)] = loop
        try:
            run(it, it.getattr(c, 'receive_file'), Stub('fh'), Sym(z3.Int('size'), 'int'))
        except PyRaise as pr:
            ctx.fail('C20.receive_file.iteration.reads-at-most-grant', repr(pr.exc))
            return
        ctx.prove('C20.receive_file.iteration.reads-at-most-grant', z3.And(*[z3int(a) <= grant for a in asked]) if asked else z3.BoolVal(True),
                  'in some iteration more bytes are read than the limiter granted for it (credit carried over between iterations escapes the cap of the bucket)')
    ex.run(recv_iteration, 'receive_file-iteration')

    def send(ctx: Ctx):
        it = mk(src_root, ctx)
        c = Obj(cls(it, CONN, 'PeerConnection'))
        grant = z3.Int('grant')
        ctx.assume(grant >= 1)
        asked = []
        L = z3.Int('limit_bps')
        ctx.assume(L >= 1024)
        charged = []
        c.attrs['upload_rate_limiter'] = Stub('limiter', take_tokens=Recorder('take_tokens', ret=Sym(grant, 'int'), is_async=True),
                                              limit_bps=Sym(L, 'int'), bucket=Sym(z3.Int('bucket'), 'int'),
                                              add_tokens=Recorder('add_tokens', fn=lambda it2, a, k: charged.append(a[0])))

        def read(it2, a, k):
            asked.append(a[0])
            from pyvc.rope import Rope
            return Rope()
        fh = Stub('fh', read=Recorder('read', fn=read, is_async=True))
        run(it, it.getattr(c, 'send_file'), fh)
        ctx.prove('C20.send_file.reads-at-most-grant', z3.BoolVal(len(asked) == 1) if len(asked) != 1 else z3int(asked[0]) <= grant,
                  'a chunk larger than the number of granted tokens is read from the file (sent on credit)')
        ctx.prove('C20.send_file.no-credit', not charged, 'the connection adjusts the bucket itself (add_tokens): only take_tokens() moves tokens out of the bucket')
    ex.run(send, 'send_file-grant')

    def current(ctx: Ctx):
        """loop contract of both transfer loops (an ARBITRARY iteration): the tokens are taken from the limiter that is installed on the
        connection AT THAT ITERATION.  Network.set_*_speed_limit replaces the limiter objects of the open connections, so a limiter read
        once before the loop keeps a running transfer on the old limit."""
        it = mk(src_root, ctx)
        which = ['receive_file', 'send_file'][ctx.choose(2, 'loop')]
        attr = 'download_rate_limiter' if which == 'receive_file' else 'upload_rate_limiter'
        c = Obj(cls(it, CONN, 'PeerConnection'))
        calls = []
        old = Stub('limiter installed when the transfer started', take_tokens=Recorder('take_tokens', fn=lambda it2, a, k: (calls.append('old'), 128)[1], is_async=True))
        new_ = Stub('limiter installed by a limit change', take_tokens=Recorder('take_tokens', fn=lambda it2, a, k: (calls.append('new'), 128)[1], is_async=True))
        c.attrs[attr] = old
        from pyvc.rope import Rope
        it.hooks[f'{CONN}:PeerConnection.receive_data'] = lambda it2, f, a, k: A.SimpleAwaitable(it2.aio, 'receive_data', lambda it3: None)
        fh = Stub('fh', read=Recorder('read', ret=Rope(), is_async=True), write=Recorder('write', is_async=True))

        def loop(it2, node, env):
            c.attrs[attr] = new_                 # the limit was changed between two chunks
            if isinstance(node, ast.While) and it2.truth(it2.eval(node.test, env)) is False:
                return
            try:
                it2.exec_block(node.body, env)
            except (ContinueEx, BreakEx):
                pass
        it.loop_specs[(f'{CONN}:PeerConnection.{which}', 0)] = loop
        if which == 'receive_file':
            run(it, it.getattr(c, which), fh, 1000)
        else:
            run(it, it.getattr(c, which), fh)
        ctx.prove(f'C20.{which}.uses-current-limiter', calls == ['new'],
                  f'the chunk after a limit change takes its tokens from {calls}: the transfer keeps the limiter it started with')
    ex.run(current, 'current-limiter')


def items(src_root, tier):
    return [('refill', 0), ('take', 0), ('window', 0), ('refill', CHUNK), ('take', CHUNK), ('window', CHUNK),
            ('misc', None), ('network', None), ('conn', None), ('progress', None)]


def run_item(src_root, item, tier):
    res = std_result('C20')
    ex = Explorer()
    kind, arg = item
    try:
        if kind in ('refill', 'take', 'window'):
            suffix = '' if arg == 0 else '[burst+1chunk]'
            {'refill': prove_refill, 'take': prove_take, 'window': prove_window_lemma}[kind](src_root, ex, arg, suffix)
        elif kind == 'misc':
            prove_misc(src_root, ex)
        elif kind == 'progress':
            prove_progress(src_root, ex)
        elif kind == 'network':
            prove_network(src_root, ex)
        elif kind == 'conn':
            prove_connection_use(src_root, ex)
    except Unsupported as e:
        res.errors.append(f'{kind}: unsupported: {e}')
    collect(res, ex)
    res.functions.update([f'{RL}:LimitedRateLimiter.refill', f'{RL}:LimitedRateLimiter.take_tokens',
                          f'{RL}:LimitedRateLimiter.add_tokens', f'{RL}:LimitedRateLimiter.copy_tokens',
                          f'{RL}:LimitedRateLimiter.is_empty', f'{RL}:LimitedRateLimiter.__init__',
                          f'{RL}:RateLimiter.create_limiter', f'{RL}:UnlimitedRateLimiter.take_tokens',
                          f'{NET}:Network.set_upload_speed_limit', f'{NET}:Network.set_download_speed_limit',
                          f'{NET}:Network._finalize_peer_connection',
                          'network.connection:PeerConnection.receive_file', 'network.connection:PeerConnection.send_file'])
    return res
