"""C01 -- wire codec round trip and byte compatibility.

Sidecar contracts + proof harness.  Oracle: the PINNED layout table
contracts/c01_layout.json and the mathematical spec encoder below (never the
metadata under verification).  See DESIGN.md section 4 / C01."""
from __future__ import annotations
import json
import os
import time

import z3

from pyvc.ctx import Ctx, Explorer, Unsupported, PathAbort
from pyvc.interp import Interp, ClassTable, Env
from pyvc.loader import Source
from pyvc.values import Sym, Boxed, Obj, ClassVal, PyRaise, Native, Bound, unbox, z3int
from pyvc.rope import (Rope, Lit, LE, Blob, ArrSeg, ByteArr, SymList, SymElem, SymPrefix, rope_equal)
from pyvc import natives as N

HERE = os.path.dirname(os.path.abspath(__file__))
LAYOUT = json.load(open(os.path.join(HERE, 'c01_layout.json')))
PRIM = 'protocol.primitives'
MSG = 'protocol.messages'

INT_TYPES = {'uint8': (1, False), 'uint16': (2, False), 'uint32': (4, False), 'uint64': (8, False),
             'int32': (4, True), '_PeerInitTicket': (4, False)}
FAMILY_DISPATCH = {
    ('ServerMessage', 'Request'): 'deserialize_request', ('ServerMessage', 'Response'): 'deserialize_response',
    ('PeerInitializationMessage', 'Request'): 'deserialize_request', ('PeerMessage', 'Request'): 'deserialize_request',
    ('DistributedMessage', 'Request'): 'deserialize_request',
}

_SRC = {}
_TABLE = {}


def source(src_root):
    if src_root not in _SRC:
        _SRC[src_root] = Source(src_root)
        _TABLE[src_root] = ClassTable(_SRC[src_root])
    return _SRC[src_root], _TABLE[src_root]


# ---------------------------------------------------------------------------
# spec side: domain values and the reference encoder (from the pinned table)

def type_class(it, tname):
    if tname == '_PeerInitTicket':
        return it.module_global(it.source.module(MSG), tname)
    return it.module_global(it.source.module(PRIM), tname)


def dom_value(it, ctx: Ctx, tname, subtype, label):
    """A symbolic in-domain Python value for wire type tname."""
    if tname in INT_TYPES:
        w, signed = INT_TYPES[tname]
        v = ctx.fresh_int(label)
        lo, hi = (-(1 << (8 * w - 1)), (1 << (8 * w - 1)) - 1) if signed else (0, (1 << (8 * w)) - 1)
        ctx.assume(z3.And(v >= lo, v <= hi))
        return Sym(v, 'int')
    if tname == 'boolean':
        return Sym(ctx.fresh_bool(label), 'bool')
    if tname == 'string':
        s = z3.Const(ctx.fresh_name(label), N.USTR)
        ctx.assume(N.utf8_len(s) >= 0)
        return Sym(s, 'ustr')
    if tname == 'bytearr':
        ln = ctx.fresh_int(label + '.len')
        ctx.assume(ln >= 0)
        return Rope([Blob(('bytes', ctx.fresh_name(label)), ln)])
    if tname == 'ipaddr':
        s = z3.Const(ctx.fresh_name(label), N.USTR)
        ctx.assume(N.is_quad(s))
        return Sym(s, 'ustr')
    if tname == 'array':
        ecls = type_class(it, subtype)
        xs = SymList(ctx, label, ecls, min_elem_size=1)
        xs.elem_tname = subtype
        return xs
    if tname in LAYOUT['records']:
        cls = type_class(it, tname)
        o = Obj(cls)
        for f in LAYOUT['records'][tname]['fields']:
            o.attrs[f['name']] = dom_value(it, ctx, f['type'], f['subtype'], f'{label}.{f["name"]}')
        return o
    raise Unsupported(f'no domain for wire type {tname}')


def bool_term(v):
    v = unbox(v)
    if isinstance(v, bool):
        return z3.BoolVal(v)
    if isinstance(v, Sym) and v.k == 'bool':
        return v.t
    if isinstance(v, Sym) and v.k == 'int':
        return v.t != 0
    if isinstance(v, int):
        return z3.BoolVal(v != 0)
    raise Unsupported('bool_term')


def spec_enc(it, ctx: Ctx, tname, subtype, v) -> Rope:
    """enc_T(v): the pinned byte layout of one value."""
    if tname in INT_TYPES:
        w, signed = INT_TYPES[tname]
        vv = unbox(v)
        if isinstance(vv, Sym) and vv.k == 'bool' or isinstance(vv, bool):
            t = z3.If(bool_term(vv), z3.IntVal(1), z3.IntVal(0))
        else:
            t = z3int(vv)
        return Rope([LE(w, t, signed)])
    if tname == 'boolean':
        return Rope([LE(1, z3.If(bool_term(v), z3.IntVal(1), z3.IntVal(0)))])
    if tname == 'string':
        vv = unbox(v)
        if isinstance(vv, str):
            b = vv.encode('utf-8')
            return Rope([LE(4, len(b)), Lit(b)])
        ln = N.utf8_len(vv.t)
        return Rope([LE(4, ln), Blob(('utf8', vv.t), ln)])
    if tname == 'bytearr':
        r = N.to_rope(it, v)
        return Rope([LE(4, r.length())]) + r
    if tname == 'ipaddr':
        vv = unbox(v)
        return Rope([Blob(('rev', ('inet', vv.t)), z3.IntVal(4))])
    if tname == 'array':
        xs = v
        if not isinstance(xs, SymList):
            raise Unsupported('spec_enc of non-symbolic array')
        if getattr(xs, 'elem_tname', None) != subtype:
            raise Unsupported('array element type mismatch in spec')
        return Rope([LE(4, xs.n), ArrSeg(xs, 0, xs.n)])
    if tname in LAYOUT['records']:
        r = Rope()
        for f in LAYOUT['records'][tname]['fields']:
            r = r + spec_enc(it, ctx, f['type'], f['subtype'], v.attrs[f['name']])
        return r
    raise Unsupported(f'no spec encoder for {tname}')


def patterns(fields):
    """Presence patterns of Dom(C): yields dicts {guards: {name: bool}, absent: set(names)}.

    - a field that is not Optional[...] in the pinned annotation is present;
    - an if_true/if_false field whose guard fails is absent;
    - an optional (trailing) field may be absent only if every field after it is absent."""
    guards = []
    for f in fields:
        for g in (f['if_true'], f['if_false']):
            if g is not None and g not in guards:
                guards.append(g)
    from itertools import product
    for gv in product([True, False], repeat=len(guards)):
        genv = dict(zip(guards, gv))
        forced_absent = set()
        for f in fields:
            if f['if_true'] is not None and not genv[f['if_true']]:
                forced_absent.add(f['name'])
            if f['if_false'] is not None and genv[f['if_false']]:
                forced_absent.add(f['name'])
        cand = [f['name'] for f in fields if f['optional'] and f['nullable'] and f['name'] not in forced_absent]
        # absent sets: suffixes of the candidate list that leave no present field behind them
        for k in range(len(cand) + 1):
            absent = set(cand[len(cand) - k:]) | forced_absent
            ok = True
            for i, f in enumerate(fields):
                if f['name'] in absent and f['name'] not in forced_absent:
                    if any(g['name'] not in absent for g in fields[i + 1:]):
                        ok = False
            if ok:
                yield genv, absent


def pattern_label(genv, absent, fields):
    parts = [f'{g}={"T" if v else "F"}' for g, v in genv.items()]
    opt = [f['name'] for f in fields if f['optional'] and f['nullable']]
    for o in opt:
        parts.append(f'{o}={"absent" if o in absent else "present"}')
    return ','.join(parts) if parts else 'all'


# ---------------------------------------------------------------------------
# contracts on the array codec (layer 1, parametric in the element codec)

def install_contracts(it: Interp):
    it.hooks[f'{PRIM}:array.serialize_into'] = c_array_serialize_into
    it.hooks[f'{PRIM}:array.deserialize'] = c_array_deserialize
    # element decoders: contract when positioned on an abstract array element, real body otherwise
    for name in ('uint8', 'uint16', 'uint32', 'uint64', 'int32', 'string', 'bytearr', 'ipaddr', 'boolean',
                 'Attribute', 'FileData', 'DirectoryData', 'ProtocolDataclass'):
        it.hooks[f'{PRIM}:{name}.deserialize'] = c_elem_deserialize


def c_array_serialize_into(it, func, args, kwargs):
    """array.serialize_into(self, buffer, element_type)
       requires  self is a list xs of in-domain elements of element_type, |xs| < 2^32
       ensures   buffer == old(buffer) ++ le(4,|xs|) ++ flatmap(enc_T, xs)      modifies buffer"""
    env_args = list(args)
    selfv = env_args[0]
    xs = unbox(selfv)
    if not isinstance(xs, SymList):
        return it.inline(func, args, kwargs)
    buf = env_args[1]
    et = env_args[2] if len(env_args) > 2 else kwargs['element_type']
    if et is not xs.elem_type:
        raise Unsupported(f'array of {xs.elem_type.name} serialised with element type {getattr(et, "name", et)}')
    if not it.ctx.branch(xs.n < (1 << 32)):
        it.throw('struct.error', 'argument out of range')
    it.ctx.ghost.setdefault('contracts_used', set()).add('array.serialize_into')
    buf.rope = buf.rope + Rope([LE(4, xs.n), ArrSeg(xs, 0, xs.n)])
    return None


def find_arrseg(ctx: Ctx, rope: Rope, pos):
    """Locate pos at the start of an ArrSeg segment: returns the segment or None."""
    loc = rope.locate(ctx, pos)
    if loc is None:
        return None
    si, d = loc
    if d == 0 and si < len(rope.segs) and isinstance(rope.segs[si], ArrSeg):
        return rope.segs[si]
    return None


def c_array_deserialize(it, func, args, kwargs):
    """array.deserialize(cls, pos, data, element_type)
       requires  data == P ++ le(4,n) ++ flatmap(enc_T, xs) ++ Q, pos == |P|, n == |xs|
       ensures   result == (pos + 4 + |flatmap(enc_T, xs)|, xs)
       (for other data: the real body is executed -- totality is C02's contract)"""
    ctx = it.ctx
    cls, pos, data = args[0], args[1], args[2]
    et = args[3] if len(args) > 3 else kwargs['element_type']
    rope = N.to_rope(it, data)
    pt = z3int(pos)
    loc = rope.locate(ctx, pt)
    if loc is not None:
        si, d = loc
        if d == 0 and si + 1 < len(rope.segs) and isinstance(rope.segs[si], LE) and isinstance(rope.segs[si + 1], ArrSeg):
            le, seg = rope.segs[si], rope.segs[si + 1]
            xs = seg.xs
            if le.w == 4 and not le.signed and xs.elem_type is et and ctx.valid(z3.And(seg.lo == 0, seg.hi == xs.n, le.t == xs.n)):
                ctx.ghost.setdefault('contracts_used', set()).add('array.deserialize')
                return (N.sym_int(pt + 4 + seg.length()), xs)
    return it.inline(func, args, kwargs)


def c_elem_deserialize(it, func, args, kwargs):
    """T.deserialize(cls, pos, data): element decode contract (prefix-decode lemma) when pos is provably
    the start of element j of an abstract array segment of element type cls; the real body otherwise."""
    ctx = it.ctx
    cls, pos, data = args[0], args[1], args[2]
    if isinstance(unbox(data), (Rope, ByteArr)) and len(args) == 3 and not kwargs:
        rope = N.to_rope(it, data)
        if any(isinstance(s, ArrSeg) and s.xs.elem_type is cls for s in rope.segs):
            pt = z3int(pos)
            offs = rope._offsets()
            for si, s in enumerate(rope.segs):
                if not (isinstance(s, ArrSeg) and s.xs.elem_type is cls):
                    continue
                xs = s.xs
                for j in list(getattr(xs, '_terms', [])):
                    if ctx.valid(z3.And(s.lo <= j, j < s.hi, pt == offs[si] + xs.cum(j) - xs.cum(s.lo))):
                        from pyvc.rope import _elem_contract_used
                        _elem_contract_used(ctx, cls.name)
                        return (N.sym_int(pt + xs.cum(j + 1) - xs.cum(j)), SymElem(xs, j))
    return it.inline(func, args, kwargs)


# loop contracts of the real array bodies (used only by the proofs of the two array contracts)

def loop_array_serialize(it, node, env):
    """invariant#k (both loops of array.serialize_into):
         buffer == E ++ flatmap(enc_T, xs[:i])  and 0 <= i <= |xs|      (E = buffer at loop entry)"""
    ctx = it.ctx
    selfv = unbox(env.lookup('self'))
    if not isinstance(selfv, SymList):
        return it.st_For(node, env, skip_spec=True)
    xs = selfv
    iterable = unbox(it.eval(node.iter, env))
    if iterable is not xs:
        raise Unsupported('array.serialize_into does not iterate over the array itself: loop contract not applicable')
    buf = env.lookup('buffer')
    entry = buf.rope
    ordinal = it.loop_ordinal(env, node)
    which = ctx.choose(2, 'loop')
    if which == 0:
        # arbitrary iteration: assume invariant at i, run the body, prove invariant at i+1
        i = ctx.fresh_int('i')
        ctx.assume(z3.And(i >= 0, i < xs.n))
        xs.cum(i)
        xs.cum(i + 1)
        buf.rope = entry + Rope([ArrSeg(xs, 0, i)])
        it.assign(node.target, SymElem(xs, i), env)
        it.exec_block(node.body, env)
        ok, why = rope_equal(ctx, buf.rope, entry + Rope([ArrSeg(xs, 0, i + 1)]))
        ctx.prove(f'C01.array.serialize_into.invariant#{ordinal}.preserved', ok, why)
        raise PathAbort()
    # after the loop: invariant at i == |xs|
    buf.rope = entry + Rope([ArrSeg(xs, 0, xs.n)])


def loop_array_deserialize(it, node, env):
    """invariant#0 of array.deserialize on aligned data:
         pos == P0 + |flatmap(enc_T, xs[:i])|  and  items == xs[:i]  and 0 <= i <= array_len == |xs|"""
    ctx = it.ctx
    data = env.lookup('data')
    rope = N.to_rope(it, data)
    pos0 = env.lookup('pos')
    seg = find_arrseg(ctx, rope, z3int(pos0))
    array_len = env.lookup('array_len')
    if seg is None or not ctx.valid(z3.And(seg.lo == 0, seg.hi == seg.xs.n, z3int(array_len) == seg.xs.n)):
        handler = it.loop_specs.get(('C02', 'array.deserialize'))
        if handler is not None:
            return handler(it, node, env)
        raise Unsupported('array.deserialize on unaligned data (needs the C02 loop contract)')
    xs = seg.xs
    p0 = z3int(pos0)
    rng = it.eval(node.iter, env)
    if not (isinstance(rng, N.SymRange) and rng.step == 1 and ctx.valid(z3.And(z3int(rng.lo) == 0, z3int(rng.hi) == xs.n))):
        ctx.fail('C01.array.deserialize.iterations', 'the decoding loop does not run exactly array_len times')
        raise PathAbort()
    ctx.ok('C01.array.deserialize.iterations')
    which = ctx.choose(2, 'loop')
    if which == 0:
        i = ctx.fresh_int('i')
        ctx.assume(z3.And(i >= 0, i < xs.n))
        xs.cum(i)
        xs.cum(i + 1)
        env.vars['pos'] = N.sym_int(p0 + xs.cum(i))
        items = SymPrefix(xs, i)
        env.vars['items'] = items
        it.exec_block(node.body, env)
        new_pos = z3int(env.lookup('pos'))
        ctx.prove('C01.array.deserialize.invariant#0.preserved',
                  z3.And(new_pos == p0 + xs.cum(i + 1), env.lookup('items') is items, items.k == i + 1)
                  if env.lookup('items') is items else False)
        raise PathAbort()
    env.vars['pos'] = N.sym_int(p0 + xs.cum(xs.n))
    env.vars['items'] = SymPrefix(xs, xs.n)


def mk_interp(src_root, ctx, with_loop_contracts=False) -> Interp:
    src, table = source(src_root)
    it = Interp(src, ctx, table)
    install_contracts(it)
    if with_loop_contracts:
        # prove the array contracts themselves: real bodies + loop invariants
        del it.hooks[f'{PRIM}:array.serialize_into']
        del it.hooks[f'{PRIM}:array.deserialize']
        it.loop_specs[(f'{PRIM}:array.serialize_into', 0)] = loop_array_serialize
        it.loop_specs[(f'{PRIM}:array.serialize_into', 1)] = loop_array_serialize
        it.loop_specs[(f'{PRIM}:array.deserialize', 0)] = loop_array_deserialize
    return it


# ---------------------------------------------------------------------------
# comparing decoded values with the originals

def value_equal(it, a, b):
    """z3 Bool / python bool: Python == of the decoded and the original value."""
    if isinstance(a, Obj) and isinstance(b, Obj):
        if a.cls is not b.cls:
            return False
        conj = []
        for f in it.dataclass_fields(a.cls):
            if f.name not in a.attrs or f.name not in b.attrs:
                return False
            e = value_equal(it, a.attrs[f.name], b.attrs[f.name])
            if e is False:
                return False
            if e is not True:
                conj.append(e)
        return z3.And(*conj) if conj else True
    if a is None or b is None:
        return a is None and b is None
    try:
        return N._eq(it, a, b)
    except Unsupported:
        return False


# ---------------------------------------------------------------------------
# proof harnesses

def blob(ctx, label):
    ln = ctx.fresh_int(label + '.len')
    ctx.assume(ln >= 0)
    return Rope([Blob(('ctx', ctx.fresh_name(label)), ln)])


def prove_elem_codec(src_root, tname, ex: Explorer):
    """C01.elem.<T>.{enc,ser,dec,min-size}: the element codec contract for one concrete T."""
    pre = f'C01.elem.{tname}'

    def enc_path(ctx: Ctx):
        it = mk_interp(src_root, ctx)
        cls = type_class(it, tname)
        v = dom_value(it, ctx, tname, None, 'v')
        spec = spec_enc(it, ctx, tname, None, v)
        ctx.assume(spec.length() < (1 << 32))
        before = blob(ctx, 'B')
        buf = ByteArr(before)
        inst = v if isinstance(v, Obj) else it.instantiate(cls, [v], {})
        try:
            it.call(it.getattr(inst, 'serialize_into'), [buf], {})
            out = it.call(it.getattr(inst, 'serialize'), [], {})
        except PyRaise as pr:
            ctx.fail(f'{pre}.no-raise', f'encoder raises {pr.exc!r}')
            return
        ctx.ok(f'{pre}.no-raise')
        ok, why = rope_equal(ctx, buf.rope, before + spec)
        ctx.prove(f'{pre}.enc', ok, why)
        ok, why = rope_equal(ctx, N.to_rope(it, out), spec)
        ctx.prove(f'{pre}.ser', ok, why)
        ctx.prove(f'{pre}.min-size', spec.length() >= 1)
    ex.run(enc_path, f'{pre}.enc')

    def dec_path(ctx: Ctx):
        it = mk_interp(src_root, ctx)
        cls = type_class(it, tname)
        v = dom_value(it, ctx, tname, None, 'v')
        spec = spec_enc(it, ctx, tname, None, v)
        ctx.assume(spec.length() < (1 << 32))
        p, q = blob(ctx, 'P'), blob(ctx, 'Q')
        if tname == '_PeerInitTicket':
            q = Rope()       # side condition of this decoder: the ticket is the last field of the frame
        data = p + spec + q
        pos = N.sym_int(p.length())
        try:
            r = it.call(it.class_attr(cls, 'deserialize'), [pos, data], {})
        except PyRaise as pr:
            ctx.fail(f'{pre}.dec', f'decoder raises {pr.exc!r} on its own encoding')
            return
        if not (isinstance(r, tuple) and len(r) == 2):
            ctx.fail(f'{pre}.dec', 'decoder does not return (pos, value)')
            return
        ctx.prove(f'{pre}.dec', z3.And(z3int(r[0]) == p.length() + spec.length(), value_equal(it, r[1], v)),
                  f'decoded {r[1]!r} at {r[0]!r}')
    ex.run(dec_path, f'{pre}.dec')


def prove_array_codec(src_root, tname, ex: Explorer):
    """C01.array[T].{serialize_into,serialize,deserialize}: the array contracts, from the real bodies with
    loop invariants, assuming only the element codec contract of T."""
    pre = f'C01.array[{tname}]'

    def ser_path(ctx: Ctx):
        it = mk_interp(src_root, ctx, with_loop_contracts=True)
        acls = type_class(it, 'array')
        xs = dom_value(it, ctx, 'array', tname, 'xs')
        ctx.assume(xs.n < (1 << 32))
        before = blob(ctx, 'B')
        buf = ByteArr(before)
        inst = it.instantiate(acls, [xs], {})
        try:
            it.call(it.getattr(inst, 'serialize_into'), [buf, xs.elem_type], {})
            out = it.call(it.getattr(inst, 'serialize'), [xs.elem_type], {})
        except PyRaise as pr:
            ctx.fail(f'{pre}.no-raise', f'{pr.exc!r}')
            return
        ctx.ok(f'{pre}.no-raise')
        spec = spec_enc(it, ctx, 'array', tname, xs)
        ok, why = rope_equal(ctx, buf.rope, before + spec)
        ctx.prove(f'{pre}.serialize_into.post', ok, why)
        ok, why = rope_equal(ctx, N.to_rope(it, out), spec)
        ctx.prove(f'{pre}.serialize.post', ok, why)
    ex.run(ser_path, f'{pre}.ser')

    def dec_path(ctx: Ctx):
        it = mk_interp(src_root, ctx, with_loop_contracts=True)
        acls = type_class(it, 'array')
        xs = dom_value(it, ctx, 'array', tname, 'xs')
        ctx.assume(xs.n < (1 << 32))
        spec = spec_enc(it, ctx, 'array', tname, xs)
        p, q = blob(ctx, 'P'), blob(ctx, 'Q')
        data = p + spec + q
        try:
            r = it.call(it.class_attr(acls, 'deserialize'), [N.sym_int(p.length()), data, xs.elem_type], {})
        except PyRaise as pr:
            ctx.fail(f'{pre}.deserialize.post', f'raises {pr.exc!r}')
            return
        ctx.prove(f'{pre}.deserialize.post',
                  z3.And(z3int(r[0]) == p.length() + spec.length(), value_equal(it, r[1], xs)), f'{r!r}')
    ex.run(dec_path, f'{pre}.dec')


def prove_message(src_root, qual, ex: Explorer, notes: list):
    """All obligations of one message class, one exploration per presence pattern."""
    pinned = LAYOUT['messages'].get(qual)
    outer_name, kind = qual.split('.')
    src, table = source(src_root)
    pre = f'C01.{qual}'
    # static facts from the working tree
    probe = Interp(src, Ctx(Explorer(), []), table)
    mod = src.module(MSG)
    try:
        outer = probe.module_global(mod, outer_name)
        cls = probe.class_attr(outer, kind)
    except (Unsupported, KeyError, PyRaise):
        ob_ctx = Ctx(ex, [])
        ob_ctx.fail(f'{pre}.layout', 'message class missing from the working tree')
        return
    if pinned is None:
        # unpinned class (protocol extension): Dom from its own metadata, no layout obligation
        from tools_layout import field_rows   # pragma: no cover
    fields = pinned['fields']
    idw = 1 if pinned['id_type'] == 'uint8' else 4
    fam = None
    for c in outer.mro:
        if isinstance(c, ClassVal) and c.name in ('ServerMessage', 'PeerInitializationMessage', 'PeerMessage', 'DistributedMessage'):
            fam = c
    for genv, absent in patterns(fields):
        label = pattern_label(genv, absent, fields)

        def path(ctx: Ctx, genv=genv, absent=absent, label=label):
            it = mk_interp(src_root, ctx)
            outer_c = it.module_global(it.source.module(MSG), outer_name)
            c = it.class_attr(outer_c, kind)
            m = Obj(c)
            vals = {}
            for f in fields:
                nm = f['name']
                if nm in absent:
                    vals[nm] = None
                elif nm in genv:
                    vals[nm] = genv[nm]
                else:
                    vals[nm] = dom_value(it, ctx, f['type'], f['subtype'], nm)
                m.attrs[nm] = vals[nm]
            # fields the working tree has in addition to the pinned ones get their defaults
            for fo in it.dataclass_fields(c):
                if fo.name not in m.attrs:
                    m.attrs[fo.name] = fo.spec.default
            # Dom(C): the reference body and frame fit their length prefixes
            body = Rope()
            for f in fields:
                if f['name'] not in absent:
                    body = body + spec_enc(it, ctx, f['type'], f['subtype'], vals[f['name']])
            ctx.assume(body.length() < (1 << 32))
            if pinned['compressed']:
                wire_body = N._zlib_compress(it, [body], {})
            else:
                wire_body = body
            ctx.assume(idw + wire_body.length() < (1 << 32))
            idseg = LE(idw, pinned['id'])
            frame = Rope([LE(4, idw + wire_body.length()), idseg]) + wire_body
            if not ctx.feasible():
                raise PathAbort()
            # --- encode with the real code
            try:
                out = it.call(it.getattr(m, 'serialize'), [], {})
            except PyRaise as pr:
                ctx.fail(f'{pre}.no-raise[{label}]', f'serialize raises {pr.exc!r}')
                return
            ctx.ok(f'{pre}.no-raise[{label}]')
            out = N.to_rope(it, out)
            ok, why = rope_equal(ctx, out, frame)
            ctx.prove(f'{pre}.layout[{label}]', ok, why)
            # length prefix == number of bytes that follow (stated on the produced bytes themselves)
            first = out.segs[0] if out.segs else None
            if isinstance(first, LE) and first.w == 4:
                ctx.prove(f'{pre}.length-prefix[{label}]', first.t == out.length() - 4)
            elif isinstance(first, Lit) and len(first.data) >= 4:
                ctx.prove(f'{pre}.length-prefix[{label}]', int.from_bytes(first.data[:4], 'little') == out.length() - 4)
            else:
                ctx.fail(f'{pre}.length-prefix[{label}]', f'no length prefix: {out!r}')
            # --- decode through the family dispatcher
            disp = FAMILY_DISPATCH.get((fam.name if fam else None, kind))
            if disp is None:
                ctx.fail(f'{pre}.dispatch[{label}]', 'message family not recognised')
                return
            it.log_events.clear()
            try:
                m2 = it.call(it.class_attr(fam, disp), [out], {})
            except PyRaise as pr:
                ctx.fail(f'{pre}.roundtrip[{label}]', f'decoder raises {pr.exc!r} on the encoder output')
                return
            if not isinstance(m2, Obj) or m2.cls is not c:
                ctx.fail(f'{pre}.dispatch[{label}]', f'dispatcher produced {m2!r}')
                return
            ctx.ok(f'{pre}.dispatch[{label}]')
            conj = []
            detail = ''
            for fo in it.dataclass_fields(c):
                a, b = m2.attrs.get(fo.name, '<unset>'), m.attrs[fo.name]
                e = value_equal(it, a, b) if a != '<unset>' else False
                if e is False:
                    detail = f'field {fo.name}: decoded {a!r}, original {b!r}'
                    conj = [False]
                    break
                if e is not True:
                    conj.append(e)
                    detail = detail or f'field {fo.name}: decoded {a!r}, original {b!r}'
            f_all = False if conj == [False] else (z3.And(*conj) if conj else True)
            ctx.prove(f'{pre}.roundtrip[{label}]', f_all, detail)
            trailing = [e for e in it.log_events if e[0] == 'warning' and e[1].endswith('MessageDataclass.deserialize')]
            ctx.prove(f'{pre}.trailing[{label}]', not trailing, 'decoder reports unparsed bytes after its own encoding')
        ex.run(path, f'{pre}[{label}]')


# ---------------------------------------------------------------------------
# work items

ELEM_TYPES = ['uint8', 'uint16', 'uint32', 'uint64', 'int32', 'boolean', 'string', 'bytearr', 'ipaddr',
              '_PeerInitTicket'] + sorted(LAYOUT['records'])


def array_elem_types():
    s = set()
    for m in list(LAYOUT['messages'].values()) + list(LAYOUT['records'].values()):
        for f in m['fields']:
            if f['subtype']:
                s.add(f['subtype'])
    return sorted(s)


def items(src_root, tier):
    out = [('elem', t) for t in ELEM_TYPES]
    out += [('array', t) for t in array_elem_types()]
    out += [('msg', q) for q in sorted(LAYOUT['messages'])]
    out += [('obf', p) for p in ('rotate_key', 'encode', 'decode', 'connection')]
    out += [('framing-relies', None)]
    return out


def run_item(src_root, item, tier):
    from pyvc.report import Result
    res = Result('C01')
    ex = Explorer()
    kind, arg = item
    N.EXTERNS_USED.clear()
    try:
        if kind == 'elem':
            prove_elem_codec(src_root, arg, ex)
        elif kind == 'array':
            prove_array_codec(src_root, arg, ex)
        elif kind == 'msg':
            prove_message(src_root, arg, ex, res.notes)
        elif kind == 'obf':
            from contracts import C01_obf
            C01_obf.prove(src_root, ex, res, arg)
        elif kind == 'framing-relies':
            # what serialize() produces comes back through a connection only if the receiving side reads a frame of EVERY announced length
            # (a distributed message with a one-byte code and no fields has length prefix 1): the framing contract of _read_message
            # (C02._read_message.*) is discharged here as well
            from contracts import C02, C10
            C02.prove_framing(src_root, ex)
            # ... and only if the sending side puts each frame on the wire in one piece (C10.send_message.one-piece)
            C10.prove_after_closed(src_root, ex)
            keep = []
            for ob in ex.obligations:
                if ob.name.startswith('C02._read_message.'):
                    ob.name = 'C01.conn.receives-every-length.' + ob.name[len('C02._read_message.'):]
                    keep.append(ob)
                elif ob.name.startswith('C10.send_message.'):
                    ob.name = 'C01.conn.' + ob.name[len('C10.'):]
                    keep.append(ob)
            ex.obligations[:] = keep
    except Unsupported as e:
        res.errors.append(f'{kind}:{arg}: unsupported: {e}')
    res.add(ex.obligations)
    res.errors.extend(ex.errors)
    res.stats.merge(ex.stats)
    res.externs.update(N.EXTERNS_USED)
    return res
