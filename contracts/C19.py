"""C19 -- room and user views equal the fold of the notifications.  DESIGN.md section 4 / C19.

Each handler is executed on a replica of UNKNOWN size (rooms and users are dictionaries with lazy
initialisation; member/operator/user/ticker collections are z3 sets and arrays) and its post-state is compared
with one step of the abstract fold written from the property statement.  Rooms and users never looked up are
never materialised, which is the frame condition "nothing else changes"."""
from __future__ import annotations

import ast
import z3

from pyvc.ctx import Ctx, Explorer, Unsupported, PathAbort
from pyvc.interp import Interp
from pyvc.values import (Sym, Obj, PyRaise, Native, Bound, EnumMember, Opaque, unbox, z3int, z3str, ReturnEx)
from pyvc import natives as N
from pyvc import aio as A
from pyvc.symcoll import SymSet, SymSeq, SymMap, NameSetList
from contracts.common import (source, mk, cls, func, new, run, enum, Recorder, Stub, collect, std_result)

RM = 'room.manager'
RMODEL = 'room.model'
UM = 'user.manager'
UMODEL = 'user.model'
MSG = 'protocol.messages'
S = z3.StringSort()

ASSUMPTIONS = [
    'A-weak: the WeakValueDictionary of users holds exactly the referenced users; UserManager.get_user_object returns '
    'THE user object of a name (so a list of users without duplicates is abstracted to the set of their names)',
    'lazy initialisation of the rooms / users dictionaries (a looked-up name is present with arbitrary contents or absent)',
    'time.time() is side-effect free',
]
TRUSTED_BASE = ['pyvc engine', 'z3 (sets, arrays, strings with equality only)', 'fold step table in contracts/C19.py']
NOT_DECIDED = [ 'JoinRoom.Response / RoomTickers.Response: the loops are under contract (one arbitrary element); the whole-handler fold is additionally run as a bounded stand-in (lists of length <= 2)']


def sstr(ctx, name):
    return Sym(ctx.fresh_str(name), 'str')


class World:
    def __init__(self, it: Interp, ctx: Ctx):
        self.it, self.ctx = it, ctx
        it.sym_containers = True
        # Room.users is list[User] abstracted to the set of names: a fresh empty list stored in the field is the empty name set
        it.attr_abstractions = {('Room', 'users'): lambda it2, v: NameSetList.empty() if isinstance(v, list) and not v else v}
        it.natives['time.time'] = Native('time.time', lambda it2, a, k: Sym(ctx.fresh_real('now'), 'real'))
        self.me = sstr(ctx, 'me')
        self.emitted: list = []
        self.sent: list = []
        self.blocked = ctx.fresh_bool('blocked')
        self.block_calls: list = []
        self.users = N.LazyDict(ctx, 'users', self.user_factory, key_kind='str')
        self.rooms = N.LazyDict(ctx, 'rooms', self.room_factory, key_kind='str')
        self.created_users: list = []
        bus = Stub('bus', emit=Recorder('emit', fn=lambda it2, a, k: self.emitted.append(a[0]), is_async=True))
        net = Stub('network', send_server_messages=Recorder('send', fn=lambda it2, a, k: self.sent.append(a), is_async=True))

        def is_blocked(it2, a, k):
            self.block_calls.append((a[0], a[1]))
            return Sym(self.blocked, 'bool')
        settings = Stub('settings', users=Stub('users', is_blocked=Recorder('is_blocked', fn=is_blocked)))
        self.me_user = self.user_factory(it, self.me.t, known=True)
        self.users.entries.append([self.me, self.me_user, True])

        def get_user_object(it2, a, k):
            """UserManager.get_user_object(name): the unique user object of that name (created when absent)"""
            e = self.users._find(it2, a[0])
            if not e[2]:
                e[1] = self.user_factory(it2, z3str(unbox(a[0])), known=False)
                e[2] = True
                self.created_users.append(e[1])
            return e[1]
        um = Stub('user_manager', get_user_object=Recorder('get_user_object', fn=get_user_object),
                  get_self=Recorder('get_self', ret=self.me_user))
        self.um_stub = um
        self.mgr = new(it, RM, 'RoomManager', _settings=settings, _event_bus=bus, _user_manager=um, _network=net, _rooms=self.rooms)

    def user_factory(self, it, key, known=True):
        ctx = self.ctx
        name = key if z3.is_expr(key) else z3str(unbox(key))
        u = new(it, UMODEL, 'User', name=Sym(name, 'str'))
        st = cls(it, UMODEL, 'UserStatus')
        if known:
            idx = ctx.fresh_int('status')
            ctx.assume(z3.And(idx >= 0, idx < len(st.enum_members)))
            u.attrs.update(status=Sym(idx, 'enum', st), privileged=Sym(ctx.fresh_bool('priv'), 'bool'),
                           avg_speed=Sym(ctx.fresh_int('spd'), 'int'), uploads=Sym(ctx.fresh_int('upl'), 'int'),
                           shared_file_count=Sym(ctx.fresh_int('sfc'), 'int'), shared_folder_count=Sym(ctx.fresh_int('sdc'), 'int'),
                           slots_free=Sym(ctx.fresh_int('slots'), 'int'), country=sstr(ctx, 'country'))
        else:
            u.attrs.update(status=[m for m in st.enum_members if m.name == 'UNKNOWN'][0], privileged=False, avg_speed=None,
                           uploads=None, shared_file_count=None, shared_folder_count=None, slots_free=None, country=None)
        u.ghost['pre'] = dict(u.attrs)
        return u

    def room_factory(self, it, key):
        ctx = self.ctx
        name = unbox(key)
        owner = sstr(ctx, 'owner') if ctx.choose(2, 'owner') == 1 else None
        r = new(it, RMODEL, 'Room', name=name if isinstance(name, Sym) else Sym(z3str(name), 'str'),
                private=Sym(ctx.fresh_bool('private'), 'bool'), users=NameSetList(z3.Const(ctx.fresh_name('users'), z3.SetSort(S))),
                joined=Sym(ctx.fresh_bool('joined'), 'bool'), user_count=Sym(ctx.fresh_int('count'), 'int'),
                tickers=SymMap.fresh(ctx, 'tickers'), members=SymSet.fresh(ctx, 'members'), owner=owner,
                operators=SymSet.fresh(ctx, 'operators'))
        r.ghost['pre'] = self.snapshot(r)
        r.ghost['existed'] = True
        return r

    @staticmethod
    def snapshot(r):
        a = r.attrs

        def users_term(v):
            if isinstance(v, NameSetList):
                return v.term
            t = z3.EmptySet(S)
            for u in v:
                t = z3.SetAdd(t, z3str(u.attrs['name']))
            return t
        return {'private': a['private'], 'users': users_term(a['users']), 'joined': a['joined'], 'user_count': a['user_count'],
                'tickers': (a['tickers'].dom, a['tickers'].val), 'members': a['members'].term, 'owner': a['owner'],
                'operators': a['operators'].term}

    def empty_room_pre(self):
        e = z3.EmptySet(S)
        return {'private': None, 'users': e, 'joined': False, 'user_count': 0, 'tickers': (e, None), 'members': e, 'owner': None, 'operators': e}


def bterm(v):
    v = unbox(v)
    if isinstance(v, bool):
        return z3.BoolVal(v)
    return v.t


def same(a, b):
    """equality of two scalar field values as a formula / bool"""
    a, b = unbox(a), unbox(b)
    if a is None or b is None:
        return a is None and b is None
    if isinstance(a, (bool,)) or (isinstance(a, Sym) and a.k == 'bool'):
        return bterm(a) == bterm(b)
    if isinstance(a, EnumMember) or isinstance(b, EnumMember) or (isinstance(a, Sym) and a.k == 'enum'):
        ia = a.index if isinstance(a, EnumMember) else a.t
        ib = b.index if isinstance(b, EnumMember) else b.t
        return ia == ib
    if isinstance(a, str) or (isinstance(a, Sym) and a.k == 'str'):
        return z3str(a) == z3str(b)
    if isinstance(a, int) or (isinstance(a, Sym) and a.k == 'int'):
        return z3int(a) == z3int(b)
    return a is b


# ---------------------------------------------------------------------------
# the fold: one step per notification.  Each entry: message class, message fields, step(pre, m, me) -> expected room
# state (only the changed components; the rest must equal pre), expected event class and payload.

def U(m):
    return z3str(m['username'])


ROOM_HANDLERS = {
    '_on_user_joined_room': dict(msg='UserJoinedRoom.Response', fields=['room', 'username', 'status:status', 'user_stats:stats', 'slots_free:int', 'country_code'],
                                 step=lambda pre, m, me: {'users': z3.SetAdd(pre['users'], U(m))}, event='RoomJoinedEvent', user='username'),
    '_on_user_left_room': dict(msg='UserLeftRoom.Response', fields=['room', 'username'],
                               step=lambda pre, m, me: {'users': z3.SetDel(pre['users'], U(m))}, event='RoomLeftEvent', user='username'),
    '_on_leave_room': dict(msg='LeaveRoom.Response', fields=['room'],
                           step=lambda pre, m, me: {'joined': False, 'users': z3.EmptySet(S)}, event='RoomLeftEvent', user=None),
    '_on_chat_room_ticker_added': dict(msg='RoomTickerAdded.Response', fields=['room', 'username', 'ticker'],
                                       step=lambda pre, m, me: {'tickers': ('put', U(m), z3str(m['ticker']))}, event='RoomTickerAddedEvent', user='username'),
    '_on_chat_room_ticker_removed': dict(msg='RoomTickerRemoved.Response', fields=['room', 'username'],
                                         step=lambda pre, m, me: {'tickers': ('del', U(m))}, event='RoomTickerRemovedEvent', user='username'),
    '_on_private_room_add_user': dict(msg='PrivateRoomGrantMembership.Response', fields=['room', 'username'], private=True,
                                      step=lambda pre, m, me: {'members': z3.SetAdd(pre['members'], U(m))}, event='RoomMembershipGrantedEvent', user='username', ukey='member'),
    '_on_private_room_added': dict(msg='PrivateRoomMembershipGranted.Response', fields=['room'], private=True,
                                   step=lambda pre, m, me: {'members': z3.SetAdd(pre['members'], me)}, event='RoomMembershipGrantedEvent', user=None),
    '_on_private_room_remove_user': dict(msg='PrivateRoomRevokeMembership.Response', fields=['room', 'username'], private=True,
                                         step=lambda pre, m, me: {'members': z3.SetDel(pre['members'], U(m)), 'operators': z3.SetDel(pre['operators'], U(m))},
                                         event='RoomMembershipRevokedEvent', user='username', ukey='member'),
    '_on_private_room_removed': dict(msg='PrivateRoomMembershipRevoked.Response', fields=['room'], private=True,
                                     step=lambda pre, m, me: {'members': z3.SetDel(pre['members'], me), 'operators': z3.SetDel(pre['operators'], me)},
                                     event='RoomMembershipRevokedEvent', user=None),
    '_on_private_room_users': dict(msg='PrivateRoomMembers.Response', fields=['room', 'usernames:seq'], private=True,
                                   step=lambda pre, m, me: {'members': m['usernames'].elems}, event='RoomMembersEvent', user=None),
    '_on_private_room_operators': dict(msg='PrivateRoomOperators.Response', fields=['room', 'usernames:seq'], private=True,
                                       step=lambda pre, m, me: {'operators': m['usernames'].elems}, event='RoomOperatorsEvent', user=None),
    '_on_operator_granted': dict(msg='PrivateRoomOperatorGranted.Response', fields=['room'], private=True,
                                 step=lambda pre, m, me: {'operators': z3.SetAdd(pre['operators'], me)}, event='RoomOperatorGrantedEvent', user=None),
    '_on_operator_revoked': dict(msg='PrivateRoomOperatorRevoked.Response', fields=['room'], private=True,
                                 step=lambda pre, m, me: {'operators': z3.SetDel(pre['operators'], me)}, event='RoomOperatorRevokedEvent', user=None),
    '_on_user_operator_granted': dict(msg='PrivateRoomGrantOperator.Response', fields=['room', 'username'], private=True,
                                      step=lambda pre, m, me: {'operators': z3.SetAdd(pre['operators'], U(m))}, event='RoomOperatorGrantedEvent', user='username', ukey='member'),
    '_on_user_operator_revoked': dict(msg='PrivateRoomRevokeOperator.Response', fields=['room', 'username'], private=True,
                                      step=lambda pre, m, me: {'operators': z3.SetDel(pre['operators'], U(m))}, event='RoomOperatorRevokedEvent', user='username', ukey='member'),
    '_on_chat_room_message': dict(msg='RoomChatMessage.Response', fields=['room', 'username', 'message'], step=lambda pre, m, me: {},
                                  event='RoomMessageEvent', user='username', block='ROOM_MESSAGES', chat=True),
    '_on_public_chat_message': dict(msg='PublicChatMessage.Response', fields=['room', 'username', 'message'], step=lambda pre, m, me: {},
                                    event='PublicMessageEvent', user='username', block='ROOM_MESSAGES'),
}


def build_message(it, ctx, spec):
    m = {}
    for f in spec['fields']:
        nm, _, kind = f.partition(':')
        if kind == '':
            m[nm] = sstr(ctx, nm)
        elif kind == 'int':
            m[nm] = Sym(ctx.fresh_int(nm), 'int')
        elif kind == 'status':
            st = ctx.fresh_int('st')
            ctx.assume(z3.And(st >= -1, st <= 2))
            m[nm] = Sym(st, 'int')
        elif kind == 'stats':
            m[nm] = new(it, 'protocol.primitives', 'UserStats', avg_speed=Sym(ctx.fresh_int('ms'), 'int'), uploads=Sym(ctx.fresh_int('mu'), 'int'),
                        shared_file_count=Sym(ctx.fresh_int('mf'), 'int'), shared_folder_count=Sym(ctx.fresh_int('md'), 'int'))
        elif kind == 'seq':
            m[nm] = SymSeq(ctx, nm)
    obj = new(it, MSG, spec['msg'], **m)
    return obj, m


def prove_room_handler(src_root, hname, ex: Explorer):
    spec = ROOM_HANDLERS[hname]

    def path(ctx: Ctx):
        it = mk(src_root, ctx)
        w = World(it, ctx)
        msg, m = build_message(it, ctx, spec)
        try:
            run(it, it.getattr(w.mgr, hname), msg, Opaque('connection'))
        except PyRaise as pr:
            ctx.fail(f'C19.{hname}.no-raise', repr(pr.exc))
            return
        ctx.ok(f'C19.{hname}.no-raise')
        blocked_path = False
        if spec.get('block'):
            flag_ok = len(w.block_calls) == 1 and w.block_calls[0][0] is m['username'] and \
                getattr(w.block_calls[0][1], 'name', None) == spec['block']
            ctx.prove(f'C19.block.{hname}.checks', flag_ok, f'is_blocked calls: {w.block_calls!r}')
            blocked_path = ctx.valid(w.blocked)
            if blocked_path:
                ctx.prove(f'C19.block.{hname}', not w.emitted, 'a message of a user blocked for room messages was reported')
                return
        # the room named by the message
        entries = [e for e in w.rooms.entries if e[2]]
        room_e = [e for e in entries if ctx.valid(z3str(unbox(e[0])) == z3str(m['room']))]
        if len(room_e) != 1 or len(entries) != 1:
            ctx.fail(f'C19.{hname}.fold', f'rooms touched: {[e[0] for e in w.rooms.entries]} (expected exactly the room of the message)')
            return
        room = room_e[0][1]
        existed = room.ghost.get('existed', False)
        pre = room.ghost['pre'] if existed else w.empty_room_pre()
        if not existed:
            pre = dict(pre)
            pre['private'] = bool(spec.get('private', False))
            ctx.prove(f'C19.{hname}.created-room', ctx.valid(z3str(room.attrs['name']) == z3str(m['room'])))
        want = dict(pre)
        delta = spec['step'](pre, m, w.me.t)
        post = World.snapshot(room)
        conj = []
        detail = []
        for k in ('private', 'joined', 'user_count', 'owner'):
            exp = delta.get(k, pre[k])
            e = same(post[k], exp)
            if e is False:
                detail.append(f'{k}: {post[k]!r} != {exp!r}')
            conj.append(e if not isinstance(e, bool) else z3.BoolVal(e))
        for k in ('users', 'members', 'operators'):
            exp = delta.get(k, pre[k])
            conj.append(post[k] == exp)
        pd, pv = post['tickers']
        d0, v0 = pre['tickers']
        t = delta.get('tickers')
        probe = z3.Const('probe', S)
        if t is None:
            conj.append(pd == d0)
            if v0 is not None:
                conj.append(z3.Implies(z3.IsMember(probe, d0), pv[probe] == v0[probe]))
        elif t[0] == 'put':
            conj.append(pd == z3.SetAdd(d0, t[1]))
            conj.append(pv[t[1]] == t[2])
            if v0 is not None:
                conj.append(z3.Implies(z3.And(z3.IsMember(probe, d0), probe != t[1]), pv[probe] == v0[probe]))
        elif t[0] == 'del':
            conj.append(pd == z3.SetDel(d0, t[1]))
            if v0 is not None:
                conj.append(z3.Implies(z3.And(z3.IsMember(probe, d0), probe != t[1]), pv[probe] == v0[probe]))
        ok = ctx.prove(f'C19.{hname}.fold', z3.And(*conj),
                       f'post-state of room differs from the fold step ({"; ".join(detail) or "sets/tickers"}): '
                       f'operators {post["operators"]} vs expected {delta.get("operators", pre["operators"])}')
        # list abstraction side condition
        ctx.prove(f'C19.{hname}.no-duplicates', not room.attrs['users'].append_violations if isinstance(room.attrs['users'], NameSetList) else True)
        # users: only the user named by the message may have been created / changed
        touched = [e for e in w.users.entries if e[2] and e[1] is not w.me_user]
        if spec.get('user'):
            uok = all(ctx.valid(z3str(unbox(e[0])) == U(m)) for e in touched)
        else:
            uok = not touched
        ctx.prove(f'C19.{hname}.users-frame', uok, f'users touched: {[e[0] for e in touched]}')
        # event
        evs = w.emitted
        ok_ev = len(evs) == 1 and evs[0].cls.name == spec['event']
        if ok_ev:
            ev = evs[0]
            if spec.get('chat'):
                rm = ev.attrs['message']
                ok_ev = rm.attrs['room'] is room and ctx.valid(z3str(rm.attrs['user'].attrs['name']) == U(m)) and rm.attrs['message'] is m['message']
            else:
                ok_ev = ev.attrs.get('room') is room
                ukey = spec.get('ukey', 'user')
                if spec.get('user'):
                    uo = ev.attrs.get(ukey)
                    ok_ev = ok_ev and isinstance(uo, Obj) and ctx.valid(z3str(uo.attrs['name']) == U(m))
                else:
                    ok_ev = ok_ev and ev.attrs.get(ukey) is None
        ctx.prove(f'C19.{hname}.event', ok_ev, f'events: {[(e.cls.name) for e in evs]}')
        # user attributes carried by a join notification
        if hname == '_on_user_joined_room':
            u = [e[1] for e in w.users.entries if e[2] and ctx.valid(z3str(unbox(e[0])) == U(m))][0]
            st = u.attrs['status']
            stv = it.getattr(st, 'value')
            ctx.prove('C19._on_user_joined_room.user-fold', z3.And(
                z3int(stv) == z3int(m['status']), same(u.attrs['avg_speed'], m['user_stats'].attrs['avg_speed']),
                same(u.attrs['uploads'], m['user_stats'].attrs['uploads']), same(u.attrs['slots_free'], m['slots_free']),
                same(u.attrs['country'], m['country_code'])))
    ex.run(path, hname)


def prove_bounded_loops(src_root, ex: Explorer, res):
    """BOUNDED stand-ins (lists of length 0..2, never counted as proved): the two handlers whose bodies loop over a
    list carried by the message."""
    def join_room(ctx: Ctx):
        it = mk(src_root, ctx)
        w = World(it, ctx)
        n = ctx.choose(3, 'len')
        names = [sstr(ctx, f'u{i}') for i in range(n)]
        stats = [new(it, 'protocol.primitives', 'UserStats', avg_speed=Sym(ctx.fresh_int('ms'), 'int'), uploads=Sym(ctx.fresh_int('mu'), 'int'),
                     shared_file_count=Sym(ctx.fresh_int('mf'), 'int'), shared_folder_count=Sym(ctx.fresh_int('md'), 'int')) for _ in range(n)]
        owner = sstr(ctx, 'owner') if ctx.choose(2, 'owner-given') == 1 else None
        if owner is not None:
            ctx.assume(z3.Length(owner.t) > 0)
        ops = SymSeq(ctx, 'operators') if ctx.choose(2, 'ops-given') == 1 else None
        msg = new(it, MSG, 'JoinRoom.Response', room=sstr(ctx, 'room'), users=names, users_status=[2] * n, users_stats=stats,
                  users_slots_free=[Sym(ctx.fresh_int('sl'), 'int') for _ in range(n)], users_countries=[sstr(ctx, 'cc') for _ in range(n)],
                  owner=owner, operators=ops)
        try:
            run(it, it.getattr(w.mgr, '_on_join_room'), msg, Opaque('connection'))
        except PyRaise as pr:
            ctx.fail('C19._on_join_room.no-raise[bounded]', repr(pr.exc))
            return
        room = [e[1] for e in w.rooms.entries if e[2]][0]
        pre = room.ghost['pre'] if room.ghost.get('existed') else w.empty_room_pre()
        post = World.snapshot(room)
        announced = z3.EmptySet(S)
        for nm in names:
            announced = z3.SetAdd(announced, nm.t)
        conj = [post['users'] == announced,
                bterm(post['joined']) == z3.BoolVal(True), bterm(post['private']) == z3.BoolVal(owner is not None),
                post['operators'] == (ops.elems if ops is not None else z3.EmptySet(S)), post['members'] == pre['members']]
        conj.append(same(post['owner'], owner) if not isinstance(same(post['owner'], owner), bool) else z3.BoolVal(same(post['owner'], owner)))
        ctx.prove('C19._on_join_room.fold[bounded]', z3.And(*conj), 'joined, the user list is exactly the announced users (lists replace), owner / operators replaced')
        ev = w.emitted
        ctx.prove('C19._on_join_room.event[bounded]', len(ev) == 1 and ev[0].cls.name == 'RoomJoinedEvent' and ev[0].attrs['room'] is room and ev[0].attrs.get('user') is None)
    ex.run(join_room, 'join_room')

    def tickers(ctx: Ctx):
        it = mk(src_root, ctx)
        w = World(it, ctx)
        n = ctx.choose(3, 'len')
        tk = [new(it, 'protocol.primitives', 'RoomTicker', username=sstr(ctx, f'u{i}'), ticker=sstr(ctx, f't{i}')) for i in range(n)]
        msg = new(it, MSG, 'RoomTickers.Response', room=sstr(ctx, 'room'), tickers=tk)
        try:
            run(it, it.getattr(w.mgr, '_on_chat_room_tickers'), msg, Opaque('connection'))
        except PyRaise as pr:
            ctx.fail('C19._on_chat_room_tickers.no-raise[bounded]', repr(pr.exc))
            return
        room = [e[1] for e in w.rooms.entries if e[2]][0]
        pd, pv = World.snapshot(room)['tickers']
        dom = z3.EmptySet(S)
        for t in tk:
            dom = z3.SetAdd(dom, t.attrs['username'].t)
        conj = [pd == dom]
        for i, t in enumerate(tk):
            later_same = z3.Or(*[tk[j].attrs['username'].t == t.attrs['username'].t for j in range(i + 1, n)]) if i + 1 < n else z3.BoolVal(False)
            conj.append(z3.Implies(z3.Not(later_same), pv[t.attrs['username'].t] == t.attrs['ticker'].t))
        ctx.prove('C19._on_chat_room_tickers.fold[bounded]', z3.And(*conj), 'the ticker list REPLACES the room tickers (last entry per user wins)')
    ex.run(tickers, 'tickers')
    res.bounded.append({'obligations': ['C19._on_join_room.*[bounded]', 'C19._on_chat_room_tickers.*[bounded]'],
                        'bound': 'message lists of length 0, 1, 2 (symbolic contents); loops unrolled', 'counted_as_proved': False})


def prove_reset(src_root, ex: Explorer):
    def path(ctx: Ctx):
        it = mk(src_root, ctx)
        w = World(it, ctx)
        it.call(it.getattr(w.mgr, 'reset_rooms'), [], {})
        r = w.mgr.attrs['_rooms']
        ctx.prove('C19.reset_rooms', isinstance(r, (dict, SymMap)) and (r == {} if isinstance(r, dict) else ctx.valid(r.dom == z3.EmptySet(S))))
    ex.run(path, 'reset')


# ---------------------------------------------------------------------------
# user handlers

def user_world(it, ctx):
    w = World(it, ctx)
    um = new(it, UM, 'UserManager', _settings=w.mgr.attrs['_settings'], _event_bus=w.mgr.attrs['_event_bus'],
             _network=w.mgr.attrs['_network'], _users=w.users, _privileged_users=SymSet.fresh(ctx, 'privileged'))
    it.hooks[f'{UM}:UserManager.get_user_object'] = lambda it2, f, a, k: w.um_stub.attrs['get_user_object'].pyvc_call(it2, a[1:], k)
    it.natives['copy.deepcopy'] = Native('deepcopy', lambda it2, a, k: Obj(a[0].cls, dict(a[0].attrs)) if isinstance(a[0], Obj) else a[0])
    return w, um


def prove_user_handlers(src_root, ex: Explorer):
    def status(ctx: Ctx):
        it = mk(src_root, ctx)
        w, um = user_world(it, ctx)
        st = ctx.fresh_int('st')
        ctx.assume(z3.And(st >= -1, st <= 2))
        priv = ctx.fresh_bool('p')
        msg = new(it, MSG, 'GetUserStatus.Response', username=sstr(ctx, 'username'), status=Sym(st, 'int'), privileged=Sym(priv, 'bool'))
        run(it, it.getattr(um, '_on_get_user_status'), msg, Opaque('conn'))
        us = [e for e in w.users.entries if e[2] and e[1] is not w.me_user or ctx.valid(z3str(unbox(e[0])) == z3str(msg.attrs['username']))]
        u = [e[1] for e in w.users.entries if e[2] and ctx.valid(z3str(unbox(e[0])) == z3str(msg.attrs['username']))][0]
        ctx.prove('C19._on_get_user_status.fold', z3.And(z3int(it.getattr(u.attrs['status'], 'value')) == st, bterm(u.attrs['privileged']) == priv))
        others = [e for e in w.users.entries if e[2] and e[1] is not u and e[1] is not w.me_user]
        ctx.prove('C19._on_get_user_status.frame', not others)
        ev = w.emitted
        ctx.prove('C19._on_get_user_status.event', len(ev) == 1 and ev[0].cls.name == 'UserStatusUpdateEvent' and ev[0].attrs['current'] is u
                  and ev[0].attrs['before'] is not u)
    ex.run(status, 'user-status')

    def stats(ctx: Ctx):
        it = mk(src_root, ctx)
        w, um = user_world(it, ctx)
        us = new(it, 'protocol.primitives', 'UserStats', avg_speed=Sym(ctx.fresh_int('a'), 'int'), uploads=Sym(ctx.fresh_int('b'), 'int'),
                 shared_file_count=Sym(ctx.fresh_int('c'), 'int'), shared_folder_count=Sym(ctx.fresh_int('d'), 'int'))
        msg = new(it, MSG, 'GetUserStats.Response', username=sstr(ctx, 'username'), user_stats=us)
        run(it, it.getattr(um, '_on_get_user_stats'), msg, Opaque('conn'))
        u = [e[1] for e in w.users.entries if e[2] and ctx.valid(z3str(unbox(e[0])) == z3str(msg.attrs['username']))][0]
        ctx.prove('C19._on_get_user_stats.fold', z3.And(*[same(u.attrs[k], us.attrs[k]) for k in ('avg_speed', 'uploads', 'shared_file_count', 'shared_folder_count')]))
        ctx.prove('C19._on_get_user_stats.event', len(w.emitted) == 1 and w.emitted[0].attrs['current'] is u)
    ex.run(stats, 'user-stats')

    def add_priv(ctx: Ctx):
        it = mk(src_root, ctx)
        w, um = user_world(it, ctx)
        msg = new(it, MSG, 'AddPrivilegedUser.Response', username=sstr(ctx, 'username'))
        run(it, it.getattr(um, '_on_add_privileged_user'), msg, Opaque('conn'))
        u = [e[1] for e in w.users.entries if e[2] and ctx.valid(z3str(unbox(e[0])) == z3str(msg.attrs['username']))][0]
        ctx.prove('C19._on_add_privileged_user.fold', u.attrs['privileged'] is True)
    ex.run(add_priv, 'user-add-priv')

    def private_message(ctx: Ctx):
        it = mk(src_root, ctx)
        w, um = user_world(it, ctx)
        msg = new(it, MSG, 'PrivateChatMessage.Response', chat_id=Sym(ctx.fresh_int('id'), 'int'), timestamp=Sym(ctx.fresh_int('ts'), 'int'),
                  username=sstr(ctx, 'username'), message=sstr(ctx, 'message'), is_direct=Sym(ctx.fresh_bool('d'), 'bool'))
        run(it, it.getattr(um, '_on_private_message'), msg, Opaque('conn'))
        acks = [a for a in w.sent if len(a) == 1 and a[0].cls.qual == 'PrivateChatMessageAck.Request' and a[0].attrs['chat_id'] is msg.attrs['chat_id']]
        ctx.prove('C19._on_private_message.acknowledged', len(acks) == 1 and len(w.sent) == 1, 'private messages are acknowledged, blocked or not')
        flag_ok = len(w.block_calls) == 1 and w.block_calls[0][0] is msg.attrs['username'] and getattr(w.block_calls[0][1], 'name', None) == 'PRIVATE_MESSAGES'
        ctx.prove('C19.block._on_private_message.checks', flag_ok)
        if ctx.valid(w.blocked):
            ctx.prove('C19.block._on_private_message', not w.emitted)
        else:
            ok = len(w.emitted) == 1 and w.emitted[0].cls.name == 'PrivateMessageEvent'
            if ok:
                cm = w.emitted[0].attrs['message']
                ok = ctx.valid(z3str(cm.attrs['user'].attrs['name']) == z3str(msg.attrs['username'])) and cm.attrs['message'] is msg.attrs['message']
            ctx.prove('C19._on_private_message.event', ok)
    ex.run(private_message, 'user-private-message')


# ---------------------------------------------------------------------------
# the two notifications that loop over the whole replica: loop contracts (one ARBITRARY element)

ROOMLIST = f'{RM}:RoomManager._on_room_list'
PRIV = f'{UM}:UserManager._on_privileged_users'


def prove_replica_loops(src_root, ex: Explorer):
    def room_list_normalise(ctx: Ctx):
        """RoomList.Response, the closing loop over ALL known rooms, one arbitrary (name, room): lists replace -
             owner      cleared only if it was the logged-in user and the room is no longer listed as owned (the owner of somebody
                        else's private room is left alone)
             operators  lose the logged-in user iff the room is not listed as operated; members likewise for `rooms_private`
             private    iff the room is not in the public list; nothing else about the room changes"""
        it = mk(src_root, ctx)
        w = World(it, ctx)
        lists = {k: SymSeq(ctx, k) for k in ('rooms', 'rooms_private_owned', 'rooms_private', 'rooms_private_operated')}
        counts = {k: Opaque(k) for k in ('rooms_user_count', 'rooms_private_owned_user_count', 'rooms_private_user_count')}
        msg = Stub('RoomList.Response', **lists, **counts)
        name = sstr(ctx, 'room_name')
        room = w.room_factory(it, name)
        pre = World.snapshot(room)

        class Rooms:
            def pyvc_getattr(self, it2, n):
                if n in ('items', 'keys', 'values'):
                    return Native(n, lambda it3, a, k: (n, self))
                raise Unsupported(n)
        rooms = Rooms()
        w.mgr.attrs['_rooms'] = rooms
        seen = []

        def skip(it2, node, env):
            return

        def final(it2, node, env):
            src = it2.eval(node.iter, env)
            it2.assign(node.target, (name, room), env)
            it2.exec_block(node.body, env)
            seen.append(src)
        for o in range(5):
            it.loop_specs[(ROOMLIST, o)] = skip
        it.loop_specs[(ROOMLIST, 5)] = final
        orig_set = it.natives['builtins.set']
        it.natives['builtins.set'] = Native('builtins.set', lambda it2, a, k: SymSet.fresh(ctx, 'keys') if a and isinstance(a[0], tuple) and a[0][0] == 'keys' else orig_set.fn(it2, a, k))
        orig_list = it.natives['builtins.list']
        it.natives['builtins.list'] = Native('builtins.list', lambda it2, a, k: ['ALL-ROOMS'] if a and isinstance(a[0], tuple) and a[0][0] == 'values' else orig_list.fn(it2, a, k))
        try:
            run(it, it.getattr(w.mgr, '_on_room_list'), msg, Opaque('connection'))
        except PyRaise as pr:
            ctx.fail('C19._on_room_list.normalise.no-raise', repr(pr.exc))
            return
        ctx.prove('C19._on_room_list.normalise.all-rooms', len(seen) == 1 and seen[0] == ('items', rooms), 'the closing loop must visit every known room')
        post = World.snapshot(room)
        me = w.me.t
        mem = z3.IsMember
        owned, operated, private, public = (mem(name.t, lists[k].elems) for k in ('rooms_private_owned', 'rooms_private_operated', 'rooms_private', 'rooms'))
        po, qo = pre['owner'], post['owner']
        if po is None:
            owner_ok = z3.BoolVal(qo is None)
        else:
            cleared = z3.And(z3.Not(owned), z3str(po) == me)
            owner_ok = z3.If(cleared, z3.BoolVal(qo is None), z3.BoolVal(qo is not None) if qo is None else z3str(qo) == z3str(po))
        ctx.prove('C19._on_room_list.normalise.owner', owner_ok,
                  'the owner may be cleared only when it was the logged-in user and the room is no longer listed as owned; the owner of '
                  "another user's private room must stay")
        ctx.prove('C19._on_room_list.normalise.operators', post['operators'] == z3.If(operated, pre['operators'], z3.SetDel(pre['operators'], me)))
        ctx.prove('C19._on_room_list.normalise.members', post['members'] == z3.If(private, pre['members'], z3.SetDel(pre['members'], me)))
        ctx.prove('C19._on_room_list.normalise.private', bterm(post['private']) == z3.Not(public))
        ctx.prove('C19._on_room_list.normalise.frame', z3.And(post['users'] == pre['users'], bterm(post['joined']) == bterm(pre['joined']),
                                                              z3int(unbox(post['user_count'])) == z3int(unbox(pre['user_count'])),
                                                              post['tickers'][0] == pre['tickers'][0]))
    ex.run(room_list_normalise, 'room-list-normalise')

    def privileged(ctx: Ctx):
        """PrivilegedUsers.Response, the loop over ALL known users, one arbitrary user: privileged iff listed (the list REPLACES the old
        set, so a user that is no longer listed loses the flag); the stored set becomes the set of the list"""
        it = mk(src_root, ctx)
        w = World(it, ctx)
        users = SymSeq(ctx, 'privileged_users')
        msg = Stub('PrivilegedUsers.Response', users=users)
        uname = sstr(ctx, 'user')
        u = w.user_factory(it, uname.t, known=True)

        class Users:
            def pyvc_getattr(self, it2, n):
                if n in ('items', 'keys', 'values'):
                    return Native(n, lambda it3, a, k: (n, self))
                raise Unsupported(n)
        store = Users()
        bus = Stub('bus', emit=Recorder('emit', fn=lambda it2, a, k: w.emitted.append(a[0]), is_async=True))
        mgr = new(it, UM, 'UserManager', _users=store, _privileged_users=SymSet.fresh(ctx, 'old_privileged'), _event_bus=bus)
        it.hooks[f'{UM}:UserManager.get_user_object'] = lambda it2, f, a, k: Opaque('user')
        orig_map = it.natives['builtins.map']
        it.natives['builtins.map'] = Native('builtins.map', lambda it2, a, k: [] if a[1] is users else orig_map.fn(it2, a, k))
        seen = []

        def loop(it2, node, env):
            src = it2.eval(node.iter, env)
            tgt = node.target
            it2.assign(tgt, u if not isinstance(tgt, ast.Tuple) else (uname, u), env)
            it2.exec_block(node.body, env)
            seen.append(src)
        it.loop_specs[(PRIV, 0)] = loop
        try:
            run(it, it.getattr(mgr, '_on_privileged_users'), msg, Opaque('connection'))
        except PyRaise as pr:
            ctx.fail('C19._on_privileged_users.no-raise', repr(pr.exc))
            return
        ctx.prove('C19._on_privileged_users.all-users', len(seen) == 1 and isinstance(seen[0], tuple) and seen[0][1] is store,
                  'the list replaces the privileges: every KNOWN user must be visited, not only the listed ones')
        ctx.prove('C19._on_privileged_users.flag', bterm(u.attrs['privileged']) == z3.IsMember(uname.t, users.elems),
                  'a known user is privileged iff listed (a user dropped from the list loses the flag)')
        pu = mgr.attrs['_privileged_users']
        ctx.prove('C19._on_privileged_users.set', isinstance(pu, SymSet) and ctx.valid(pu.term == users.elems))
    ex.run(privileged, 'privileged-users')


    def room_list_lists(ctx: Ctx):
        """RoomList.Response, the four list loops, one ARBITRARY entry each (lists of any length):
             rooms[i]                  known afterwards, user_count = rooms_user_count[i]
             rooms_private_owned[i]    known, owner = me, user_count = ..._owned_user_count[i]
             rooms_private[i]          known, me in members, user_count = ..._user_count[i]
             rooms_private_operated[i] known, me in operators
           and nothing else about the room changes in that iteration"""
        it = mk(src_root, ctx)
        w = World(it, ctx)
        which = ctx.choose(4, 'list')
        I_ = z3.IntSort()
        NAME, COUNT = z3.Function('name_at', I_, S), z3.Function('count_at', I_, I_)
        i = ctx.fresh_int('i')
        ctx.assume(i >= 0)

        class IdxList:
            def __init__(self, fn, kind):
                self.fn, self.kind = fn, kind

            def pyvc_getitem(self, it2, idx):
                return Sym(self.fn(z3int(unbox(idx))), self.kind)

            def pyvc_iter(self, it2, loop):
                raise Unsupported('iteration over a message list without a contract')
        fields = ['rooms', 'rooms_private_owned', 'rooms_private', 'rooms_private_operated']
        counts = ['rooms_user_count', 'rooms_private_owned_user_count', 'rooms_private_user_count', None]
        names = IdxList(NAME, 'str')
        cnts = IdxList(COUNT, 'int')
        attrs = {f: (names if k == which else Opaque(f)) for k, f in enumerate(fields)}
        attrs.update({c: (cnts if k == which else Opaque(c)) for k, c in enumerate(counts) if c})
        msg = Stub('RoomList.Response', **attrs)
        orig_enum = it.natives['builtins.enumerate']
        it.natives['builtins.enumerate'] = Native('builtins.enumerate', lambda it2, a, k: ('enumerate', a[0]) if a[0] is names else orig_enum.fn(it2, a, k))
        seen = []

        def focus(it2, node, env):
            src = it2.eval(node.iter, env)
            tgt = (Sym(i, 'int'), Sym(NAME(i), 'str')) if isinstance(node.target, ast.Tuple) else Sym(NAME(i), 'str')
            it2.assign(node.target, tgt, env)
            it2.exec_block(node.body, env)
            seen.append(src)
            raise ReturnEx('<iteration done>')
        for o in range(6):
            it.loop_specs[(ROOMLIST, o)] = focus if o == which else (lambda it2, node, env: None)
        try:
            run(it, it.getattr(w.mgr, '_on_room_list'), msg, Opaque('connection'))
        except PyRaise as pr:
            ctx.fail(f'C19._on_room_list.{fields[which]}.no-raise', repr(pr.exc))
            return
        ok = len(seen) == 1 and (seen[0] is names or seen[0] == ('enumerate', names))
        ctx.prove(f'C19._on_room_list.{fields[which]}.iterates', ok)
        rooms = [e for e in w.rooms.entries if e[2] and ctx.valid(z3str(unbox(e[0])) == NAME(i))]
        ctx.prove(f'C19._on_room_list.{fields[which]}.room-known', len(rooms) == 1, 'a listed room must be known afterwards')
        if len(rooms) != 1:
            return
        room = rooms[0][1]
        existed = bool(room.ghost.get('existed'))
        pre = room.ghost['pre'] if existed else w.empty_room_pre()
        post = World.snapshot(room)
        me = w.me.t
        conj = []
        if which != 3:
            conj.append(z3int(unbox(post['user_count'])) == COUNT(i))
        if which == 1:
            conj.append(z3.BoolVal(post['owner'] is not None) if post['owner'] is None else z3str(unbox(post['owner'])) == me)
        else:
            conj.append(same(post['owner'], pre['owner']) if existed else z3.BoolVal(post['owner'] is None))
        conj.append(post['members'] == (z3.SetAdd(pre['members'], me) if which == 2 else pre['members']))
        conj.append(post['operators'] == (z3.SetAdd(pre['operators'], me) if which == 3 else pre['operators']))
        conj.append(post['users'] == pre['users'])
        if not existed:
            conj.append(bterm(post['private']) == z3.BoolVal(which != 0))
        conj = [z3.BoolVal(c) if isinstance(c, bool) else c for c in conj]
        ctx.prove(f'C19._on_room_list.{fields[which]}.entry', z3.And(*conj),
                  'a listed room must get the listed count and the role the list stands for (owner / member / operator = the logged-in user), nothing else')
    ex.run(room_list_lists, 'room-list-lists')

    def room_list_removal(ctx: Ctx):
        """RoomList.Response: the rooms that are forgotten are exactly the known rooms that are in none of the three room lists (an
        arbitrary one of them is deleted, by its name)"""
        it = mk(src_root, ctx)
        w = World(it, ctx)
        lists = {k: SymSeq(ctx, k) for k in ('rooms', 'rooms_private_owned', 'rooms_private', 'rooms_private_operated')}
        msg = Stub('RoomList.Response', **lists, rooms_user_count=Opaque('c'), rooms_private_owned_user_count=Opaque('c'), rooms_private_user_count=Opaque('c'))
        KEYS = z3.Const('known_rooms', z3.SetSort(S))
        deleted = []

        class Rooms:
            def pyvc_getattr(self, it2, n):
                if n in ('items', 'keys', 'values'):
                    return Native(n, lambda it3, a, k: (n, self))
                raise Unsupported(n)

            def pyvc_delitem(self, it2, key):
                deleted.append(key)
        rooms = Rooms()
        w.mgr.attrs['_rooms'] = rooms
        orig_set = it.natives['builtins.set']
        it.natives['builtins.set'] = Native('builtins.set', lambda it2, a, k: SymSet(KEYS, S) if a and isinstance(a[0], tuple) and a[0][0] == 'keys' else orig_set.fn(it2, a, k))
        orig_list = it.natives['builtins.list']
        it.natives['builtins.list'] = Native('builtins.list', lambda it2, a, k: ['ALL'] if a and isinstance(a[0], tuple) else orig_list.fn(it2, a, k))
        victim = sstr(ctx, 'forgotten_room')
        seen = []

        def removal(it2, node, env):
            src = it2.eval(node.iter, env)
            seen.append(src)
            if isinstance(src, SymSet):
                ctx.assume(z3.IsMember(victim.t, src.term))
                it2.assign(node.target, victim, env)
                it2.exec_block(node.body, env)
        for o in range(6):
            it.loop_specs[(ROOMLIST, o)] = removal if o == 4 else (lambda it2, node, env: None)
        run(it, it.getattr(w.mgr, '_on_room_list'), msg, Opaque('connection'))
        listed = z3.SetUnion(lists['rooms'].elems, lists['rooms_private'].elems, lists['rooms_private_owned'].elems)
        ok = len(seen) == 1 and isinstance(seen[0], SymSet)
        ctx.prove('C19._on_room_list.removal.set', ok and ctx.valid(seen[0].term == z3.SetDifference(KEYS, listed)),
                  'the forgotten rooms must be exactly the known rooms that are in none of the room lists')
        ctx.prove('C19._on_room_list.removal.deletes', len(deleted) == 1 and deleted[0] is victim, 'each of them must be deleted, by its name')
    ex.run(room_list_removal, 'room-list-removal')


    def join_room_loop(ctx: Ctx):
        """JoinRoom.Response, the loop over the announced users, one ARBITRARY index i (lists of any length): the user object of users[i]
        gets status, statistics, country and free slots of the i-th entries and is in the room afterwards; nobody else is added"""
        it = mk(src_root, ctx)
        w = World(it, ctx)
        I_ = z3.IntSort()
        US, ST, CC, SL = (z3.Function(n, I_, so) for n, so in (('users', S), ('status', I_), ('country', S), ('slots', I_)))
        SP, UP, FC, DC = (z3.Function(n, I_, I_) for n in ('avg_speed', 'uploads', 'files', 'folders'))
        i = ctx.fresh_int('i')
        n = ctx.fresh_int('n_users')
        ctx.assume(z3.And(i >= 0, i < n))
        stcls = cls(it, UMODEL, 'UserStatus')
        ctx.assume(z3.Or(*[ST(i) == m.value for m in stcls.enum_members]))          # a valid wire value (others raise ValueError: C02)
        exp_idx = z3.IntVal(stcls.enum_members[-1].index)
        for m in stcls.enum_members[:-1]:
            exp_idx = z3.If(ST(i) == m.value, z3.IntVal(m.index), exp_idx)

        class IdxList:
            def __init__(self, fn, kind, wrap=None):
                self.fn, self.kind, self.wrap = fn, kind, wrap

            def pyvc_getitem(self, it2, idx):
                t = self.fn(z3int(unbox(idx)))
                return self.wrap(t) if self.wrap else Sym(t, self.kind)

            def pyvc_iter(self, it2, loop):
                raise Unsupported('iteration over a message list without a contract')

            def pyvc_truth(self, it2):
                return n > 0
        stats = IdxList(None, None, wrap=None)
        stats.pyvc_getitem = lambda it2, idx: new(it2, 'protocol.primitives', 'UserStats', avg_speed=Sym(SP(z3int(unbox(idx))), 'int'), uploads=Sym(UP(z3int(unbox(idx))), 'int'),
                                                  shared_file_count=Sym(FC(z3int(unbox(idx))), 'int'), shared_folder_count=Sym(DC(z3int(unbox(idx))), 'int'))
        users = IdxList(US, 'str')
        # UserStatus(value) by the value of the member: the status list carries the wire values
        vals = [m.value for m in stcls.enum_members]
        msg = Stub('JoinRoom.Response', room=sstr(ctx, 'room'), users=users, users_status=IdxList(ST, 'int'), users_stats=stats,
                   users_countries=IdxList(CC, 'str'), users_slots_free=IdxList(SL, 'int'), owner=None, operators=None)
        seen = []

        class En:
            pass

        def enumerate_(it2, a, k):
            if a[0] is users:
                return ('enumerate', users)
            raise Unsupported('enumerate')
        it.natives['builtins.enumerate'] = Native('builtins.enumerate', enumerate_)

        def loop(it2, node, env):
            src = it2.eval(node.iter, env)
            room = env.lookup('room')
            before = World.snapshot(room)['users']
            it2.assign(node.target, (Sym(i, 'int'), Sym(US(i), 'str')), env)
            it2.exec_block(node.body, env)
            seen.append((src, room, before))
        it.loop_specs[(f'{RM}:RoomManager._on_join_room', 0)] = loop
        try:
            run(it, it.getattr(w.mgr, '_on_join_room'), msg, Opaque('connection'))
        except PyRaise as pr:
            ctx.fail('C19._on_join_room.loop.no-raise', repr(pr.exc))
            return
        ok = len(seen) == 1 and seen[0][0] == ('enumerate', users)
        ctx.prove('C19._on_join_room.loop.iterates-users', ok)
        if not ok:
            return
        _, room, before = seen[0]
        ctx.prove('C19._on_join_room.loop.starts-empty', before == z3.EmptySet(S),
                  'the user list of a JoinRoom response REPLACES the room\'s user list (lists replace): when the loop over the announced users is '
                  'reached the room must hold no users; a user recorded earlier (a UserJoinedRoom that arrived for a room we had left) survives otherwise')
        e = w.users._find(it, Sym(US(i), 'str'), create=False) if hasattr(w.users, '_find') else None
        u = [x[1] for x in w.users.entries if x[2] and ctx.valid(z3str(unbox(x[0])) == US(i))]
        ctx.prove('C19._on_join_room.loop.user-object', len(u) == 1, 'the user object of the announced name must be looked up (created when unknown)')
        if len(u) != 1:
            return
        u = u[0]
        a = u.attrs
        conj = [same(a['status'], Sym(exp_idx, 'enum', stcls)), same(a['country'], Sym(CC(i), 'str')), same(a['slots_free'], Sym(SL(i), 'int')),
                same(a['avg_speed'], Sym(SP(i), 'int')), same(a['uploads'], Sym(UP(i), 'int')),
                same(a['shared_file_count'], Sym(FC(i), 'int')), same(a['shared_folder_count'], Sym(DC(i), 'int'))]
        conj = [z3.BoolVal(c) if isinstance(c, bool) else c for c in conj]
        ctx.prove('C19._on_join_room.loop.user-fields', z3.And(*conj), 'the i-th user gets the i-th status, statistics, country and free slots')
        after = World.snapshot(room)['users']
        ctx.prove('C19._on_join_room.loop.room-gains-user', after == z3.SetAdd(before, US(i)), 'the room gains exactly the announced user')
    ex.run(join_room_loop, 'join-room-loop')

    def tickers_loop(ctx: Ctx):
        """RoomTickers.Response: the new ticker map starts EMPTY (the list replaces the tickers of the room), one arbitrary entry stores its
        ticker under its user (a later entry of the same user wins), and the map built by the loop becomes the room's tickers"""
        it = mk(src_root, ctx)
        w = World(it, ctx)

        class Tickers:
            def pyvc_iter(self, it2, loop):
                raise Unsupported('iteration over the tickers without a contract')
        tl = Tickers()
        un, tx = sstr(ctx, 'ticker_user'), sstr(ctx, 'ticker_text')
        entry = Stub('RoomTicker', username=un, ticker=tx)
        msg = Stub('RoomTickers.Response', room=sstr(ctx, 'room'), tickers=tl)
        state = {}
        it.natives['collections.OrderedDict'] = Native('collections.OrderedDict', lambda it2, a, k: {} if not a else (_ for _ in ()).throw(Unsupported('OrderedDict(x)')))

        def loop(it2, node, env):
            src = it2.eval(node.iter, env)
            empties = [k for k, v in env.vars.items() if isinstance(v, dict) and not v]
            state['src'], state['empties'] = src, empties
            if len(empties) != 1:
                return
            m0 = SymMap.fresh(ctx, 'built_so_far')
            state['m0'] = (m0.dom, m0.val)
            env.vars[empties[0]] = m0
            state['map'] = m0
            it2.assign(node.target, entry, env)
            it2.exec_block(node.body, env)
        it.loop_specs[(f'{RM}:RoomManager._on_chat_room_tickers', 0)] = loop
        try:
            run(it, it.getattr(w.mgr, '_on_chat_room_tickers'), msg, Opaque('connection'))
        except PyRaise as pr:
            ctx.fail('C19._on_chat_room_tickers.loop.no-raise', repr(pr.exc))
            return
        ctx.prove('C19._on_chat_room_tickers.loop.starts-empty', state.get('src') is tl and len(state.get('empties', [])) == 1,
                  'the ticker list REPLACES the tickers: the map must be built from an empty one')
        if 'map' not in state:
            return
        m = state['map']
        d0, v0 = state['m0']
        ctx.prove('C19._on_chat_room_tickers.loop.stores-entry', z3.And(m.dom == z3.SetAdd(d0, un.t), m.val == z3.Store(v0, un.t, tx.t)),
                  "an entry must store its ticker under its user's name (overwriting an earlier entry of that user) and nothing else")
        room = [e[1] for e in w.rooms.entries if e[2]][0]
        ctx.prove('C19._on_chat_room_tickers.loop.assigns', room.attrs['tickers'] is m, 'the map built by the loop must become the room\'s tickers')
    ex.run(tickers_loop, 'tickers-loop')


def items(src_root, tier):
    return [('room', h) for h in ROOM_HANDLERS] + [('reset', None), ('users', None), ('replica', None), ('bounded', None)]


def run_item(src_root, item, tier):
    res = std_result('C19')
    ex = Explorer()
    kind, arg = item
    try:
        if kind == 'room':
            prove_room_handler(src_root, arg, ex)
            res.functions.add(f'{RM}:RoomManager.{arg}')
        elif kind == 'reset':
            prove_reset(src_root, ex)
        elif kind == 'bounded':
            prove_bounded_loops(src_root, ex, res)
        elif kind == 'replica':
            prove_replica_loops(src_root, ex)
            res.functions.update([ROOMLIST, PRIV])
        elif kind == 'users':
            prove_user_handlers(src_root, ex)
            res.functions.update([f'{UM}:UserManager._on_get_user_status', f'{UM}:UserManager._on_get_user_stats',
                                  f'{UM}:UserManager._on_add_privileged_user', f'{UM}:UserManager._on_private_message'])
    except Unsupported as e:
        res.errors.append(f'{kind}:{arg}: unsupported: {e}')
    collect(res, ex)
    res.functions.update([f'{RM}:RoomManager.get_or_create_room', f'{RMODEL}:Room.add_user', f'{RMODEL}:Room.remove_user',
                          f'{UMODEL}:User.update_from_user_stats'])
    return res
