#!/usr/bin/env python3
"""Regenerates baseline_obligations.json (obligation families per property) from the evidence of a run on the unchanged tree:
   for p in C01..C20: ./check p ; then python3 tools/mkbaseline.py"""
import json
import os
import subprocess
import sys
VERIF = os.path.dirname(os.path.dirname(os.path.abspath(__file__)))
sys.path.insert(0, VERIF)
out = {}
inst = {}
for n in range(1, 21):
    p = f'C{n:02d}'
    r = subprocess.run([os.path.join(VERIF, 'check'), p, '--no-evidence', '--jobs', '8', '--dump-names'], capture_output=True, text=True, cwd=VERIF)
    names = [ln[len('NAME '):] for ln in r.stdout.splitlines() if ln.startswith('NAME ')]
    fams = sorted({x.split('[')[0] for x in names if not x.endswith('native-sweep[bounded]')})
    out[p] = fams
    inst[p] = sorted(x for x in names if not x.endswith('native-sweep[bounded]'))
    print(p, len(names), 'obligations,', len(fams), 'families', 'exit', r.returncode)
json.dump(out, open(os.path.join(VERIF, 'baseline_obligations.json'), 'w'), indent=1)
json.dump(inst, open(os.path.join(VERIF, 'baseline_instances.json'), 'w'), indent=0)
