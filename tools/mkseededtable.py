#!/usr/bin/env python3
"""Writes the table of seeded/results.json between the SEEDED-TABLE markers of DESIGN.md."""
import json
import os
V = os.path.dirname(os.path.dirname(os.path.abspath(__file__)))
res = json.load(open(os.path.join(V, 'seeded', 'results.json')))
rows = ['| change | title (as given by its author) | demo on the changed tree | ./check exit | obligations that fail (first ones) | native replay |',
        '|---|---|---|---|---|---|']
caught = 0
for k in sorted(res, key=lambda x: (x.split('/')[0], int(x.split('/')[1]))):
    e = res[k]
    caught += bool(e.get('caught'))
    obs = ', '.join(f'`{o}`' for o in e.get('obligations', [])[:2]) or '—'
    rows.append(f"| {k} | {e.get('title', '')[:110].replace('|', '/')} | {'VIOLATED' if e.get('demo_violated') else '?'} | {e.get('check_exit')} | {obs} | "
                f"{e.get('replayed', 0)} of {e.get('violations', 0)} |")
rows.append('')
rows.append(f'{caught} of {len(res)} seeded changes are reported as VIOLATION (exit 1); 0 of them pass.')
p = os.path.join(V, 'DESIGN.md')
s = open(p).read()
a, b = s.index('SEEDED-TABLE-BEGIN'), s.index('SEEDED-TABLE-END')
s = s[:a] + 'SEEDED-TABLE-BEGIN\n\n' + '\n'.join(rows) + '\n\n' + s[b:]
open(p, 'w').write(s)
print(caught, len(res))
