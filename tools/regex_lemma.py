"""BOUNDED stand-in for the regex lemma of C07 (never counted as proved).  Runs under /venv/bin/python with PYTHONPATH=<src_root> and
checks, exhaustively over all (subdir, filename, term) up to the stated bound, through the REAL create_term_pattern,
_QUERY_CLEAN_PATTERN and SharedItem.get_query_path:
   L1  plain pattern of u matches QP            ==>  PIECES(u) subset of WORDS
   L2  wildcard pattern of u matches QP         ==>  REST(u) subset of WORDS and (HEAD(u) != '' ==> some word ends with HEAD(u))
   SEM pattern matches QP  <==>  u occurs in QP as whole word(s), case-insensitively (oracle without regular expressions)
   INV a term with an alphanumeric character has a non-empty piece, also after its '*' / '-' prefix is removed
usage: regex_lemma.py quick|thorough   -> one JSON line {"ok": bool, "checked": n, "bound": "...", "counterexample": ...}"""
import itertools
import json
import re
import sys
import time

from aioslsk.shares.utils import create_term_pattern
from aioslsk.shares.manager import _QUERY_CLEAN_PATTERN
from aioslsk.shares.model import SharedItem

tier = sys.argv[1] if len(sys.argv) > 1 else 'quick'
if tier == 'quick':
    PATH_ALPHA, PATH_LEN, TERM_ALPHA, TERM_LEN = 'abA_ .', 5, 'ab_-.', 3
else:
    PATH_ALPHA, PATH_LEN, TERM_ALPHA, TERM_LEN = 'abAé_ .-', 5, 'abé_-.', 4


def strings(alpha, n):
    for k in range(n + 1):
        for t in itertools.product(alpha, repeat=k):
            yield ''.join(t)


def boundary(ch):
    return not ch.isalnum()


def occurs(t, p, wildcard):
    t, p = t.lower(), p.lower()
    i = p.find(t)
    while i >= 0:
        if (wildcard or i == 0 or boundary(p[i - 1])) and (i + len(t) == len(p) or boundary(p[i + len(t)])):
            return True
        i = p.find(t, i + 1)
    return False


def main():
    t0 = time.time()
    terms = []
    for u in strings(TERM_ALPHA, TERM_LEN):
        if not any(ch.isalnum() for ch in u):
            continue
        pcs = re.split(_QUERY_CLEAN_PATTERN, u)
        nonempty = {p for p in pcs if p}
        if not nonempty:
            return {'ok': False, 'counterexample': f'INV: term {u!r} has a word character but no non-empty piece'}
        terms.append((u, nonempty, pcs[0], {p for p in pcs[1:] if p}, create_term_pattern(u, wildcard=False), create_term_pattern(u, wildcard=True)))
    checked = 0
    # paths: the string is cut into (subdir, filename) at every position, which also covers sub-directories with separators inside
    for s in strings(PATH_ALPHA, PATH_LEN):
        for cut in {0, len(s) // 2}:
            subdir, filename = s[:cut], s[cut:]
            if not filename:
                continue
            for sub in ({subdir, subdir.replace(' ', '/')} if ' ' in subdir else {subdir}):
                qp = SharedItem(None, sub, filename, 0.0).get_query_path()
                words = {p for p in re.split(_QUERY_CLEAN_PATTERN, (sub + '/' + filename).lower()) if p}
                for u, pieces, head, rest, plain, wild in terms:
                    checked += 1
                    mp, mw = bool(plain.search(qp)), bool(wild.search(qp))
                    if mp and not pieces <= words:
                        return {'ok': False, 'counterexample': f'L1: {u!r} matches {qp!r} but pieces {pieces} are not all in {words}'}
                    if mw and not (rest <= words and (not head or any(wd.endswith(head) for wd in words))):
                        return {'ok': False, 'counterexample': f'L2: *{u!r} matches {qp!r}; head {head!r} rest {rest}, words {words}'}
                    if mp != occurs(u, qp, False):
                        return {'ok': False, 'counterexample': f'SEM: plain {u!r} on {qp!r}: pattern says {mp}, whole-word oracle {not mp}'}
                    if mw != occurs(u, qp, True):
                        return {'ok': False, 'counterexample': f'SEM: wildcard {u!r} on {qp!r}: pattern says {mw}, oracle {not mw}'}
    return {'ok': True, 'checked': checked, 'seconds': round(time.time() - t0, 1)}


r = main()
r['bound'] = f'paths over {PATH_ALPHA!r} up to length {PATH_LEN} (cut into subdir/filename), terms over {TERM_ALPHA!r} up to length {TERM_LEN}'
print(json.dumps(r))
