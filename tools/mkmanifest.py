#!/usr/bin/env python3
"""Regenerates /verif/MANIFEST.json from the table below (one entry per claimed property)."""
import json
import os

VERIF = os.path.dirname(os.path.dirname(os.path.abspath(__file__)))
props = [json.loads(l) for l in open(os.path.join(VERIF, 'properties.jsonl'))]

TECH = 'contract-based deductive verification: sidecar contracts on the real functions, VCs generated from the AST of the working tree by the pyvc symbolic executor, discharged by z3 (cvc5 second back end)'

CLAIMS = {
 'C01': {
  'text': 'Proof. Every wire type, record type, the parametric array codec (loop invariants, all lengths) and each of the 158 message classes is executed symbolically from the working tree\'s AST on symbolic in-domain values; per class and presence pattern the obligations layout (bytes == pinned layout table), length-prefix, no-raise, dispatch, roundtrip and trailing are validity queries discharged by z3. All field values, all array lengths and all presence patterns are covered by the same queries, which is what the sampled byte strings of the suite cannot do.',
  'design_ref': 'DESIGN.md section 4 / C01',
  'note': 'Trusted: extern contracts of struct.Struct pack/unpack (little-endian standard sizes), str.encode/bytes.decode as an inverse pair on valid text, zlib.compress/decompress as an inverse pair, socket.inet_aton/ntoa on canonical dotted quads; Python ints are mathematical (exact). The pinned layout table contracts/c01_layout.json is the oracle. One open known finding (PrivateChatMessage.Response is_direct=None).',
 },
 'C02': {
  'text': 'Proof. Every primitive, record, array (loop contract: each iteration raises or consumes >= 1 unread byte, so at most len(data) iterations whatever count is announced) and message decoder, and the five family dispatchers, are executed symbolically on ARBITRARY byte strings: every path returns or raises an Exception subclass from the declared raises-set. On top of these contracts: decode_message_data lets only MessageDeserializationError escape (for every Exception subclass the parser may raise), _read_message consumes exactly header + announced length from the ghost stream (plain and obfuscated), _read raises only ConnectionReadError after disconnecting, an arbitrary iteration of the reader loop lets nothing escape, delivers once iff a message arrived on an open connection, and ends only when the connection is closing; a bad first frame closes only the accepted connection; and no code run by the reader activation (every @on_message handler and what it awaits on self) awaits a task/future outside a CancelledError shield.',
  'design_ref': 'DESIGN.md section 4 / C02',
  'note': 'Trusted: extern contracts of struct, bytes.decode, zlib.decompress, socket.inet_ntoa, StreamReader.readexactly, async_timeout, asyncio task cancellation semantics; single-threaded cooperative scheduling; the handler obligation is a syntactic exit-path rule over the awaited expressions (stated in contracts/C02.py). Not decided: memory exhaustion by a huge well-formed length prefix.',
 },
 'C20': {
  'text': 'Proof over reals/integers. The real refill(), one iteration of take_tokens (loop contract), add_tokens, copy_tokens, create_limiter and the Network functions that install limiters are executed symbolically from arbitrary states satisfying the window invariant J (ghost: bytes granted since an arbitrary reference instant s, whether a stamping refill happened since s); each must re-establish J and the cap 0 <= bucket <= L. J and last_refill <= clock give granted(s,e) <= L*(te-ts) + L for ALL request sequences, gaps and clock readings - the quantifier single refill/take unit tests cannot reach. Also: refill and decrement are one atomic section, copy_tokens never mints tokens, all connections share one limiter object, unlimited never waits, and a waiter gains a positive amount per sleep (bounded wait).',
  'design_ref': 'DESIGN.md section 4 / C20',
  'note': 'Assumed: floats as reals (A-float), time.monotonic non-decreasing, sleep advances the clock, limits >= 1 KiB/s. One recorded known finding (2 obligations, one witness class): after lowering the limit and idling, L + 128 bytes are granted in zero time; the bound with one extra 128-byte chunk is proved. Not decided: fairness among several waiters; bound across k limit changes beyond no-mint.',
 },
 'C03': {
  'text': 'Proof. For each of the 10 state classes x 8 operations x both directions the real method body is executed under the contract precondition (transfer.state is self, lock held): it either returns True after exactly one listener-observable change that is an edge of the pinned graph EDGES, with the lock held, or returns False having written no field, cancelled no task and touched no file. TransferState._wrap_lock is executed for real (every public method ends up behind _with_state_lock), and the wrapper is executed with the lock acquisition as a yield point at which transfer.state is havocked: the body that runs must belong to the CURRENT state (this is the obligation the overlapping-operations window breaks; no test issues two operations concurrently). Lock discipline (only transition() and constructors write Transfer.state; transition() is called only from state methods) is a whole-tree frame scan. Manager abort/queue/pause raise iff refused.',
  'design_ref': 'DESIGN.md section 4 / C03 and Appendix B',
  'note': 'Trusted: asyncio.Lock mutual exclusion, cooperative scheduling, inspect.getmembers model, aiofiles.os externs; EDGES table pinned from the documentation and the property statement. One defect found and fixed (0399347).',
 },
 'C12': {
  'text': 'Proof. ExpectedResponse.matches is executed on symbolic connections/messages for every shape of the field dictionary (scalar and callable matchers in either order, missing attributes, peer given or not) and its result is proved equivalent to the conjunction over ALL fields the property states. on_message_received is executed for an arbitrary pending future with symbolic done/cancelled/matches status: it raises nothing, completes exactly the pending matching futures with (connection, message), leaves the others untouched and runs handlers and bus listeners first. wait_for_server/peer_message and SoulSeekClient.execute are executed for every outcome of the awaited future (message, expiry, cancellation, send failure): expiry surfaces as TimeoutError and the future is done on every exit; each registration site attaches the idempotent removal callback in the same atomic section. The cancelled-but-not-yet-removed window and the timeout path are never reached by the suite (mocked).',
  'design_ref': 'DESIGN.md section 4 / C12 and Appendix B',
  'note': 'Trusted: abstract asyncio Future model (InvalidStateError on done futures, async_timeout cancels the awaited future), cooperative scheduling, the independent-iterations loop rule (frame-checked). Three defects found and fixed (36711ee, 687c0d2, 407c005).',
 },
 'C18': {
  'text': 'Proof. The ticket generator is verified through a loop contract on its real body (invariant 1 <= idx <= 2^32-1, each iteration yields the cyclic successor) plus the modular lemma that two draws fewer than 2^32-1 apart differ; a whole-tree frame scan proves every writer of SearchManager.requests draws its key from the manager\'s one generator. _on_peer_search_reply is executed against a dictionary of unknown size (lazy initialisation): a result event for exactly the registered request iff the ticket is registered, stored iff configured, connection closed either way, nothing else touched. _attach_request_timer_and_emit, the three search entry points, _timeout_search_request, remove_request and the wishlist timeout rule are executed symbolically; Timer is executed through start/cancel/finish/reschedule histories with done-callbacks run as separate later activations: the handle always designates the one live runner, so a cancelled or re-armed timer cannot fire for a superseded deadline.',
  'design_ref': 'DESIGN.md section 4 / C18',
  'note': 'Trusted: asyncio task/callback model, asyncio.sleep not returning early (wall-clock "not before" is not decided), lazy-initialisation model of the requests dictionary; distinctness holds while fewer than 2^32-2 tickets are drawn during the life of a request. Three defects found and fixed (1b561b1, 818ac00, a6e3714).',
 },
 'C19': {
  'text': 'Proof. 17 room handlers and 4 user handlers are executed symbolically on a replica of unknown size: rooms and users are dictionaries with lazy initialisation, user/member/operator collections are z3 sets, tickers a z3 array with a domain set, all names symbolic strings. For each handler the post-state of the addressed room (every component) is proved equal to one step of the abstract fold written from the property statement (join adds, leave removes, grant adds, revoke removes incl. operator, lists replace, own grant/revoke act on the logged-in user), rooms and users not named by the message are never touched (frame), the event carries the room and user of the message, and block filters query the right kind and suppress the event (private messages stay acknowledged). Replica equality after ANY sequence follows by induction on the sequence; the suite checks each handler once from an empty model.',
  'design_ref': 'DESIGN.md section 4 / C19',
  'note': 'Trusted: lazy-initialisation model of the dictionaries, uniqueness of the user object per name (list of users abstracted to a set of names, with a no-duplicate obligation), fold table in contracts/C19.py. JoinRoom.Response and RoomTickers.Response loops only as BOUNDED stand-ins (list length <= 2, not counted as proved); RoomList and PrivilegedUsers (loops over the whole replica) are not under contract. One defect found and fixed (07783d7).',
 },
 'C13': {
  'text': 'Proof per handler over all names, levels, roots, speeds and flags (symbolic), on enumerated tree shapes: _get_advertised_branch_values equals the spec function adv(parent, me); a peer becomes parent only if there is none, it announced level and root and it is not a child, otherwise a complete candidate is disconnected; a child is admitted iff acceptance is on, the count is below the maximum and the peer was not proposed as potential parent, with check and append in one atomic section; after every handler that changes the parent or its values (set, announced new level/root, lost, session start) the last BranchLevel/BranchRoot/ToggleParentSearch sent to the server and the last level/root sent to each child equal adv evaluated after the change; CLOSED removes the peer everywhere; the child limit follows the speed/ratio table; INV-tree (parent not a child, registered peers, no duplicates) holds at every exit. Sequence properties follow by induction over handlers; the suite has one scenario per handler.',
  'design_ref': 'DESIGN.md section 4 / C13',
  'note': 'Trusted: hand-over point sent[c], cooperative scheduling. Obligations quantifying over the children list are BOUNDED stand-ins (0..2 children, labelled [bounded], not counted as proved). Not decided: liveness of connections at all times. Two defects found and fixed (9d17886, 7d452c7).',
 },
 'C14': {
  'text': 'Proof per carrier handler over all user/ticket/query values: nothing is handed to any connection that is not a child (parent, candidate, server), searches of the logged-in user are neither forwarded (3 carriers) nor answered (4 handlers), a legacy carrier with another code is ignored, the shares are queried once for (ticket, asker, query) of the incoming request, and _query_shares_and_reply creates exactly one PeerSearchReply task to the asker with the same ticket, the own username and the visible/locked lists iff there is at least one match (none for blocked users); queue_messages creates one send task per message.',
  'design_ref': 'DESIGN.md section 4 / C14',
  'note': 'Trusted: hand-over point sent[c]; SharesManager.query by contract (C07/C08). "each child exactly once with the same user/ticket/query" is a BOUNDED stand-in (0..3 children, labelled [bounded], not counted as proved). One defect found and fixed (3c33423).',
 },
 'C05': {
  'text': 'Proof of the per-call contracts. The body of the selection loop of _get_queued_transfers is executed for an ARBITRARY transfer and ARBITRARY accumulator sets (step contract): an upload is selected iff its user is not offline, has no processing upload, has no upload selected yet and the upload is QUEUED (sound and complete), the per-user set records exactly the selected users; a z3 induction step lifts this to lists of any length (at most one per user, none offline/uploading). The ranking of _prioritize_uploads is executed for two arbitrary users and proved to embed the lexicographic order privileged > friend > online/away (so other order-preserving weights still verify); get_free_upload_slots / has_slots_free equal their formulas; everything is one atomic section. Whole-function postconditions (ordering of the result, uploads started <= free slots and the highest-priority ones) are BOUNDED stand-ins over lists of <= 2 transfers.',
  'design_ref': 'DESIGN.md section 4 / C05',
  'note': 'Trusted: stable list.sort / reversed, get_user_object contract. NOT decided: the instant invariant across management cycles (timing) and eventual start (liveness). [bounded] obligations are not counted as proved.',
 },
 'C06': {
  'text': 'Proof of the class invariant INV-slot (every live task of a transfer is held in one of its two slots) through slot-emptiness at the three task-creation sites: the step contract of the selection loop (arbitrary transfer) shows only transfers with both slots empty reach manage_transfers, manage_transfers stores each task in the slot of its own transfer with the matching done-callback in one atomic section, and _on_peer_transfer_request creates an initialisation task only when none exists. With INV-slot: abort()/pause() of every state cancel AND await both slots before the state change is reported (so no activation of the transfer remains), refused requests cancel nothing, a cancelled or failed remote-queue attempt never sets remotely_queued, remove = abort + removal + one event.',
  'design_ref': 'DESIGN.md section 4 / C06',
  'note': 'Trusted: asyncio cancellation model, C03 (the body runs on the current state under the lock). Not decided: effects of peer messages arriving later. One defect found and fixed (bac8603).',
 },
 'C17': {
  'text': 'Proof. For every state class, both directions and legacy records, the real __getstate__ / __setstate__ are executed on a transfer with symbolic persistent fields: the pickled dictionary drops exactly the run-time fields, __getstate__ does not mutate, a NEW object restored from a copy has every persistent field unchanged, the state of the class with the same VALUE bound to the new object behind the lock wrapper, fresh run-time fields, and the legacy abort-reason rule. The cache key is extracted from the real TransferShelveCache.write and its injectivity on (user, path, direction) is a string-theory validity query (refuted: known finding). read_cache is executed for an arbitrary persisted transfer of every state: INITIALIZING becomes QUEUED, transferring becomes COMPLETE iff filesize == bytes_transfered else INCOMPLETE with time variables reset, nothing stays in progress, the remote-queue mark is cleared and every loaded transfer goes through add(), which wires the manager as state listener, lists it once and requests a management cycle.',
  'design_ref': 'DESIGN.md section 4 / C17',
  'note': 'Trusted: pickle/shelve/dbm (shelf modelled as a dictionary), sha256 injective. write() exactness is a BOUNDED stand-in (<= 2 transfers, not counted). One recorded known finding: the key is a concatenation and therefore not injective (on-disk format change needed to repair).',
 },
 'C04': {
  'text': 'Proof per function. receive_file and send_file are verified through loop contracts on their real bodies (arbitrary iteration, symbolic chunk and grant): each chunk is written (sent) once and then reported once, unchanged and in order, the byte counter equals the bytes written, the loop ends iff EOF or all announced bytes arrived, and nothing is read when nothing is missing. _download_file / _upload_file are executed for every outcome of the transport and the file system: the file is opened once in append mode and asked for filesize - offset bytes with the transfer\'s own callback; complete() is reachable only on the path where receive_file / send_file returned normally (and, for uploads, the peer closed the connection after a seek to the received offset) and filesize == offset + bytes moved; a connection fault leaves INCOMPLETE (download) or FAILED + PeerUploadFailed (upload), a file error FAILED(FILE_READ_ERROR), cancellation closes the file connection and re-raises. The resume offset is the local file size (0 if absent), recorded as bytes_transfered and sent as le(8, offset).',
  'design_ref': 'DESIGN.md section 4 / C04',
  'note': 'Trusted: file-system assumptions (A-fs), receive_data contract (C02), C03 state methods, C01 uint64 layout. NOT decided: byte identity of the pair of clients over a faulty transport for all cut points and segmentations (two-party), dishonest senders beyond not-COMPLETE, eventual completion. One defect found and fixed (8f2fc77).',
 },
 'C10': {
  'text': 'Proof of exit-path contracts. set_state writes state and _is_closing before its first yield (atomic prefix); connect() of peer and server connections is executed for every outcome of open_connection INCLUDING cancellation at the await: the reported sequence is monotone (only the server may go CLOSED -> CONNECTING) and every exit leaves the connection CONNECTED or CLOSED-and-unregistered; disconnect() from every state and for every outcome of wait_closed (returns, raises, times out, cancelled) reports CLOSING and CLOSED exactly once, unregisters, cancels queued sends, and a second or concurrent call reports nothing; accept() never reports anything after the initialisation handler closed the connection; after CLOSING/CLOSED nothing is sent and a send without a socket raises; a failed send closes; CLOSED removes exactly that connection from the registry (idempotently) and on_state_changed emits exactly one event after the registry handler. The order of notifications across accept / failure / cancellation paths is what the suite never asserts.',
  'design_ref': 'DESIGN.md section 4 / C10',
  'note': 'Trusted: abstract asyncio model (open_connection / wait_closed / drain outcomes), cooperative scheduling. Not decided: registry exactness "at every quiescent moment" as a whole-history statement. Two defects found and fixed (dbfb4d8, 50d716e).',
 },
 'C11': {
  'text': 'Proof of exit-path contracts asserted at return, at every escaping exception and at the CancelledError successor of every await: _make_indirect_connection (pierced, CannotConnect, timeout, server send failure, cancelled at the send, cancelled at the wait) leaves no pending waiter for the ticket or the notice and returns the pierced connection or raises PeerConnectionError; _make_direct_connection (address lookup or given address, connect failure, PeerInit send failure, cancellation at each of its yield points) either returns a CONNECTED, registered, finalised connection whose first message is PeerInit(me, typ, ticket), or leaves its connection CLOSED and unregistered, and registers before its first yield; fallback and race modes are executed for all outcome combinations and orders of the two sub-attempts: result, loser disconnected, slow loser cancelled AND awaited, PeerConnectionError iff both fail, cancellation of the request cancels both; select_port is its 8-row table; a connect-back request is answered by PeerPierceFirewall or by CannotConnect to the server; a pierce with a known ticket completes that future once, an unknown one closes only that connection.',
  'design_ref': 'DESIGN.md section 4 / C11',
  'note': 'Trusted: abstract asyncio model (asyncio.wait outcomes supplied per case), C10 contracts of connect/disconnect/send. Not decided: that an outcome exists whenever a path can work (environment liveness). Three defects found and fixed (345327d, 85b8972, bf89bd7).',
 },
 'C15': {
  'text': 'Proof. One iteration of the tracking worker (loop contract on the real body) is executed for EVERY combination of previous flags, request flag, operation, queued follow-up, pending retry and server behaviour (confirm exists / not exists / silence / send error / other error) - the flag domain is finite, so this enumeration is exhaustive: AddUser exactly on empty -> non-empty or on a retry while a reason remains, RemoveUser exactly on non-empty -> empty, never otherwise; TRACKED iff the server confirmed the user, else RETRY_PENDING with exactly one retry after 600 s (unknown user) or 10 s (error, silence) and the previous retry cancelled and awaited; no retry survives an empty set; every request is marked handled; the worker returns only with an empty set and an empty queue, and at that very point its registry entry is gone (class invariant registered => worker alive), and a done-callback removes only its own entry. track_user / untrack_user enqueue on the registered worker and create one (with its callback) iff none exists, atomically; CLOSED of the server connection cancels and awaits every worker and retry task; flags are written only through queued requests (frame scan).',
  'design_ref': 'DESIGN.md section 4 / C15',
  'note': 'Trusted: abstract asyncio model (Queue, tasks, done-callbacks run in a later iteration). Not decided: wall-clock retry delays. manage_user_tracking (TRANSFER reason) only as a BOUNDED stand-in. One defect found and fixed (8ac5641).',
 },
 'C16': {
  'text': 'Proof per handler / exit path. login() is executed for every kind of reply: Login.Request first, AuthenticationError iff rejected, no session and no reader on any failure, on success exactly one SessionInitializedEvent carrying the new session and the reader started only after it was delivered. Each SessionInitialized handler is executed as a function of the settings: SetListenPort from the 9 combinations of listening-connection states, CheckPrivileges + SetStatus(ONLINE) + friend tracking, TogglePrivateRoomInvites(setting) and JoinRoom for the favourites iff auto_join, interests, share counts. Session destruction is read-and-clear in one atomic section (one SessionDestroyedEvent per session, nothing for other connections/states) and users, rooms and server-sent distributed parameters are reset on CLOSED. The watchdog table is exhaustive over state x close reason x settings (started on CONNECTED iff auto-reconnect; stopped on REQUESTED or EOF only; reconnects only from CLOSED with credentials; re-login iff auto). stop(): every manager the client constructs is in services, Network.disconnect cancels every BackgroundTask the Network owns and disconnects every connection, each manager cancels and returns the handles it owns, and the client awaits them.',
  'design_ref': 'DESIGN.md section 4 / C16',
  'note': 'Trusted: hand-over point sent[server], abstract asyncio model, static enumeration of task-creation sites (AST). List-valued settings only as BOUNDED stand-ins (0..2 entries, [bounded], not counted). Not decided: liveness of the reconnect, the untracked shares.scan() task, peer-connection tasks cancelled but not awaited by stop(). Four defects found and fixed (d5d7ff0, d56ea2e, 3ce7fe8, 12a76a0).',
 },
 'C09': {
  'text': 'Proof (z3 strings plus an uninterpreted separator-free predicate expanded syntactically). The comprehension of split_remote_path is executed on an ARBITRARY piece of re.split: a piece is kept iff it is a plain component (not "", ".", "..", no separator). Each shipped strategy is executed against the contract of split_remote_path (symbolic number of parts): Default returns a plain name and the unchanged directory, KeepDirectory extends the directory by at most ONE plain component, NumberDuplicate (loop contract over an arbitrary directory listing, set/min/max over a symbolic index set) returns root + " (k)" + ext with k >= 1 not taken, hence a name not in the listing. chain_strategies is proved by a loop invariant (path == D ++ sequence of "/"+plain component, name empty or plain) for an arbitrary list of shipped strategies in any order; the not-exists claim is proved for chains that end with NumberDuplicateStrategy, and SharesManager is shown to install such a chain; calculate_download_path and _prepare_download_path are proved to use exactly that result, keep a resumed path, and create only the directory. The unit tests use ten benign paths and never a ".." component.',
  'design_ref': 'DESIGN.md section 4 / C09',
  'note': 'Assumed: POSIX os.path (join/splitext/normpath axioms), re.split pieces contain no separator, the numbered-pattern regex axiom (bounded-checked against CPython re with the PATTERN literal read from the source, not counted as proved), single process file system. One defect fixed (d264f83: ".." kept by split_remote_path). Known findings (3 obligations): chains NOT ending with NumberDuplicateStrategy can choose an existing file (property says any order); two concurrently starting downloads of equally named files get the same local path (check-then-create race across the create_directory await).',
 },
 'C07': {
  'text': 'Proof (Z3, quantified lemmas instantiated by E-matching triggers) with one bounded stand-in. Every loop and comprehension of SharesManager.query is given a contract that is checked on an ARBITRARY iteration executed from the real AST (include pieces, wildcard head/rest pieces, matching keys, union generator, item sets, all(matchers), filter loop with the cap); from the contracts, the class invariant of the term map (complete and sound for the live items) and the regex lemma the result is proved sound (every returned item is live and satisfies every include / wildcard / exclude term), capped, and complete whenever the cap was not reached; each early "return [], []" is proved to happen only when no live item can match. The invariant is proved to be established by rebuild_term_map and preserved by _add_item_to_term_map / _build_term_map / _cleanup_term_map / scan_directory_files (items become exactly the scan result of the directory minus its child shared directories), add_shared_directory and remove_shared_directory (items re-created for the innermost owner; partition lemma over an abstract path order: every item is owned by the innermost shared directory containing it, no file twice). get_stats, SearchQuery.parse and matchers_iter are proved element-wise against their specifications. A test suite samples ~25 queries on one 4-file fixture; here terms, pieces, keys, items and directory sets are unbounded.',
  'design_ref': 'DESIGN.md section 4 / C07',
  'note': 'Bounded, not proved: the regex lemma linking the two patterns of create_term_pattern to the word split of the term map (exhaustive over paths <= 5 and terms <= 3/4 characters over small alphabets, run natively on the real functions each time). Assumed: weak references of dropped items die at once (A-weak), os.path as an abstract path order, scan_directory as an external function, str.lower vs re.IGNORECASE agreement. Queries without any include/wildcard term return nothing (documented, pinned by the suite): stated as a precondition. Four defects fixed (3e37c6c, c7c4901, 0a8a03d, 6e37640).',
 },
 'C08': {
  'text': 'Proof. is_directory_locked / is_item_locked are proved equal to locked(d,u) for every share mode with symbolic friend and user sets; UsersSettings.is_blocked is proved against the flag table exhaustively (all 64 flag combinations x 6 asked flags). The visible/locked split and the excluded-phrase filter of query() are loop contracts checked on an arbitrary item / phrase (shared with C07): no visible result is locked for the asking user, locked results are locked, and no result contains an excluded phrase compared case-insensitively - for any number of items, phrases and any letter case. create_shares_reply is proved to take its normal list from directories not locked for the requester; the peer handlers and the search reply are proved to consult the SHARES / SEARCHES block of the requesting user and to answer nothing when it is set; the two upload request handlers are proved, for every outcome of the share lookup, to refuse blocked or unentitled requests without looking up, creating or queueing a transfer, and _add_upload / get_shared_item(_cache) to create or return something only for a file shared with that user. _evaluate_aborted_state is proved against the decision table for all 10 states x 4 reasons x blocked x shared, and manage_shares_changed to issue exactly queue() / abort(reason) / nothing per transfer, leaving requested aborts alone. The tests cover one friends-only directory, one friend, one stranger and three fixed e2e orders.',
  'design_ref': 'DESIGN.md section 4 / C08',
  'note': 'Relies on the contracts of C07 (prefilter) and C03 (transitions defined from the states named). One defect fixed (2e54304: excluded phrases with upper-case letters), one shared with C07 (0a8a03d: moved items classified by their old directory). Known finding: create_directory_reply lists the files of a directory locked for the requester (no requester parameter; the natural patch is pinned out by an existing unit test). Not decided: histories of several configuration changes interleaved with negotiations (one management cycle is proved); bytes already on the wire.',
 },
}

# obligations added after the independent seeded rounds (DESIGN.md section 9.6): appended to the level notes
EXTRA = {
 'C01': 'Added: serialize_message sends the class\'s own serialize() (C01.conn.serialize_message).',
 'C02': 'Added: receive_message_object contract (None only on EOF); whole-tree scan that no logging call can raise in makeRecord (the extraction drops logging calls).',
 'C04': 'Added: uploader half of the retry path (exhaustive over states), the offset survives start_transferring, the announced size of THIS attempt is used, and the read contract of C02 (a reset is an error, not EOF) is discharged here as well.',
 'C05': 'Added: the tasks take their slot (INITIALIZING) before their first suspension; the done-callbacks that release the slot (C06) are discharged here as well; the ranking is stated on the result of _prioritize_uploads.',
 'C06': 'Added (relied-on contracts discharged here as well): dispatch on the current state after waiting for the lock (C03), cancellation of both connection attempts in race mode (C11), a user-requested abort is never re-queued by the re-evaluation (C08); remove() uses abort\'s precondition.',
 'C08': 'Added: entitlement re-checked for the requesting user on repeated requests for an existing upload, update_shared_directory (also an emptied user list), delivery of configuration changes to the management cycle (no lost change at any suspension point), and the ownership obligations of C07 are discharged here as well.',
 'C09': 'Added: the chain asks about the location chosen so far; a scan pins where the local path is chosen and what may suspend before the file exists (the recorded check-then-create window must not widen).',
 'C10': 'Added: an accepted connection is registered before the handler first suspends and ends CLOSED when its initialisation fails (C02 obligation discharged here as well).',
 'C11': 'Added: fallback for every failure kind of the direct attempt; a pierced connection is finalised with the user and type of the waiting request.',
 'C12': 'Added: time-out with the future already holding a result / still pending; a waiter that expires while the handlers run; the PeerTransferReply waiter of the upload negotiation is done on every exit.',
 'C13': 'Added: candidates are only added, _set_parent assigns before its first suspension, get_distributed_peer compares the connection.',
 'C14': 'Added: the fan-out to the children never suspends, only incoming connections are considered as children, and the parent-election / peer-lookup obligations of C13 are discharged here as well.',
 'C15': 'Added: the worker ends only if its queue is empty at that very moment (a request injected at every suspension point); CLOSED drops the tracking state for every close reason.',
 'C16': 'Added: the watchdog retries whatever state the previous run saw.',
 'C17': 'Added: restored transfers own their mutable run-time fields.',
 'C18': 'Added: wishlist loop contract (callback invoked after the loop variables were rebound), lookup and report are atomic in the reply handler, one ticket generator for the life of the manager, the expired request is unregistered before the first suspension.',
 'C19': 'Added: loop contracts for the closing loop of RoomList and for PrivilegedUsers (one arbitrary room / user).',
 'C20': 'Added: the limiter is read from the connection at every chunk; bounded wait for up to four waiters (INTERVAL/4 gap credits at least one token, constants read from the source).',
}

NA_DEFAULT = 'check not built yet (work in progress; see DESIGN.md section 4 for the planned contracts)'
NA = {}


def main():
    base_cmd = 'cd /repo && /venv/bin/python -m pytest -ra -q -p no:cacheprovider --timeout=900 --continue-on-collection-errors'
    checks = []
    for p in props:
        c = CLAIMS.get(p['id'])
        if not c:
            continue
        checks.append({
            'property_id': p['id'],
            'quick_cmd': f'./check {p["id"]} --tier quick',
            'thorough_cmd': f'./check {p["id"]} --tier thorough',
            'evidence_file': f'/verif/evidence/{p["id"]}.json',
            'replay_cmd_template': f'./check {p["id"]} --replay {{path}}',
            'engine': 'pyvc',
            'level_claimed': {'category': 'proof', 'text': c['text'], 'design_ref': c['design_ref']},
            'level_note': c['note'] + (' ' + EXTRA[p['id']] if p['id'] in EXTRA else '') + ' Thorough tier: the same obligations plus a bounded native sweep of the replay battery over the current tree.',
            'technique': c.get('technique', TECH),
        })
    m = {
        'version': 1,
        'setup_cmd': 'python3-vt -m compileall -q pyvc contracts replay check.py >/dev/null 2>&1; true',
        'hooks': {
            'guard': 'JURGENR_AIOSLSK_VERIF',
            'enable': 'not needed: contracts are sidecar modules under /verif/contracts keyed by qualified function name; /repo carries no verification hooks',
            'baseline_off_cmd': base_cmd, 'source_commits': [], 'add_only': True,
        },
        'engines': [{
            'name': 'pyvc', 'path': 'pyvc/', 'serves_properties': sorted(CLAIMS),
            'kind_free_text': 'home-grown deductive verifier: Python ast -> per-path symbolic execution of the real function bodies -> named proof obligations discharged by z3 (cvc5 as second back end); sidecar contracts; re-reads /repo/src on every run',
        }],
        'checks': checks,
        'not_applicable': [{'property_id': p['id'], 'reason': NA.get(p['id'], NA_DEFAULT)} for p in props if p['id'] not in CLAIMS],
        'notes': 'Exit codes of ./check: 0 all obligations discharged, 1 refuted obligation (VIOLATION line), 2 undecided, 3 checker error. Known findings: known_findings.json.',
    }
    json.dump(m, open(os.path.join(VERIF, 'MANIFEST.json'), 'w'), indent=1)
    import jsonschema
    jsonschema.validate(m, json.load(open('/root/.vp/MANIFEST.schema.json')))
    print('MANIFEST ok:', [c['property_id'] for c in checks])


if __name__ == '__main__':
    main()
