#!/usr/bin/env python3
"""Copies a sub-agent delivery (/tmp/wt/<id>/deliver/{patch,demo,meta}_n.*) into seeded/<id>/ under the next free numbers.
usage: import_delivery.py C05 [C06 ...]   prints the numbers used."""
import glob, json, os, re, shutil, sys
VERIF = os.path.dirname(os.path.dirname(os.path.abspath(__file__)))
for pid in sys.argv[1:]:
    src = f'/tmp/wt/{pid}/deliver'
    dst = os.path.join(VERIF, 'seeded', pid)
    have = [int(re.search(r'patch_(\d+)', f).group(1)) for f in glob.glob(os.path.join(dst, 'patch_*.diff'))]
    nxt = max(have, default=0) + 1
    used = []
    for f in sorted(glob.glob(os.path.join(src, 'patch_*.diff'))):
        n = re.search(r'patch_(\d+)', f).group(1)
        if not (os.path.exists(f'{src}/demo_{n}.py') and os.path.exists(f'{src}/meta_{n}.json')):
            print(pid, n, 'incomplete delivery, skipped')
            continue
        shutil.copy(f, f'{dst}/patch_{nxt}.diff')
        shutil.copy(f'{src}/demo_{n}.py', f'{dst}/demo_{nxt}.py')
        try:
            meta = json.load(open(f'{src}/meta_{n}.json'))
        except Exception as e:
            meta = {'property': pid, 'title': f'(meta unreadable: {e})'}
        meta['n'] = nxt
        json.dump(meta, open(f'{dst}/meta_{nxt}.json', 'w'), indent=1)
        used.append(str(nxt))
        nxt += 1
    print(pid, ','.join(used))
