#!/usr/bin/env python3
"""./check Cxx [--tier quick|thorough] [--src-root DIR] [--replay PATH] [--only SUBSTR]

Exit codes: 0 all obligations discharged (known findings printed), 1 a named obligation is refuted
(VIOLATION line), 2 undecided, 3 checker error / vacuity guard.  See DESIGN.md section 2.6."""
import argparse
import importlib
import os
import sys
import time
import traceback
from concurrent.futures import ProcessPoolExecutor, as_completed

HERE = os.path.dirname(os.path.abspath(__file__))
sys.path.insert(0, HERE)


def _work(args):
    prop, src_root, item, tier = args
    mod = importlib.import_module(f'contracts.{prop}')
    from pyvc.report import Result
    try:
        res = mod.run_item(src_root, item, tier)
        return res.dump()
    except Exception:
        r = Result(prop)
        r.crashes.append(f'item {item!r}: ' + ' | '.join(traceback.format_exc().strip().split('\n')[-7:]))
        return r.dump()


def main():
    ap = argparse.ArgumentParser()
    ap.add_argument('prop')
    ap.add_argument('--dump-names', action='store_true')
    ap.add_argument('--tier', default=os.environ.get('VERIF_TIER') or 'quick')
    ap.add_argument('--src-root', default=os.environ.get('VERIF_SRC_ROOT', '/repo/src'))
    ap.add_argument('--replay')
    ap.add_argument('--only', default=None)
    ap.add_argument('--no-evidence', action='store_true')
    ap.add_argument('--jobs', type=int, default=int(os.environ.get('VERIF_JOBS', '0')) or min(16, os.cpu_count() or 4))
    a = ap.parse_args()
    if os.environ.get('VERIF_TIER'):
        a.tier = os.environ['VERIF_TIER']
    seed = int(os.environ.get('VERIF_SEED', '0') or 0)
    t0 = time.time()
    mod = importlib.import_module(f'contracts.{a.prop}')
    if a.replay:
        rp = importlib.import_module(f'replay.{a.prop}')
        sys.exit(rp.rerun(a.replay, a.src_root))
    from pyvc.report import Result, finish
    res = Result(a.prop)
    try:
        items = mod.items(a.src_root, a.tier)
    except Exception:
        res.crashes.append('items(): ' + traceback.format_exc(limit=6).replace('\n', ' | '))
        items = []
    if a.only:
        items = [i for i in items if a.only in repr(i)]
        os.environ['VERIF_ONLY'] = '1'
    jobs = [(a.prop, a.src_root, it, a.tier) for it in items]
    if a.jobs <= 1 or len(jobs) <= 1:
        for j in jobs:
            res.merge(_work(j))
    else:
        with ProcessPoolExecutor(max_workers=a.jobs) as pool:
            futs = [pool.submit(_work, j) for j in jobs]
            for f in as_completed(futs):
                try:
                    res.merge(f.result())
                except Exception as e:
                    res.crashes.append(f'worker died: {e!r}')
    extra = {}
    if hasattr(mod, 'post'):
        try:
            mod.post(a.src_root, a.tier, seed, res, extra)
        except Exception:
            res.crashes.append('post(): ' + traceback.format_exc(limit=6).replace('\n', ' | '))
    try:
        rp = importlib.import_module(f'replay.{a.prop}')
        replay = lambda name, e: rp.replay(name, e, a.src_root)
        known_check = getattr(rp, 'known_check', None)
    except ModuleNotFoundError:
        replay = lambda name, e: (None, None)
        known_check = None
    if a.tier == 'thorough' and not a.only and not res.crashes:
        # thorough tier: on top of the proof obligations the native replay battery of the property (real code under /venv/bin/python:
        # differential / fold / schedule batteries, see replay/native_*.py) is swept over the CURRENT tree.  It is a BOUNDED cross-check of the
        # contracts' assumptions (never counted as proved); a failing input it finds is a replayed violation.
        name = f'{a.prop}.native-sweep[bounded]'
        ent = {'verdict': 'undecided', 'detail': 'native battery of the property on the current tree', 'model': None, 'path': [], 'instances': 1,
               'seconds': 0.0, 'backends': {'native': 1}, 'trivial': 0}
        t1 = time.time()
        try:
            confirmed, _path = replay(name, ent)
        except Exception as e:      # noqa
            confirmed = None
            ent['detail'] += f' (driver error: {e!r})'
        ent['seconds'] = time.time() - t1
        crashed = None
        try:
            import json as _json
            nat = _json.load(open(_path)).get('native') if _path else None
            if isinstance(nat, dict) and nat.get('confirmed') is None:
                crashed = str(nat.get('error') or 'no verdict line')[-300:]
        except Exception:
            pass
        if crashed is not None:
            # the battery itself did not finish (traceback, no verdict): that is no verdict, never "held"
            ent['verdict'] = 'undecided'
            ent['detail'] += f' (the native battery did not produce a verdict: {crashed})'
            res.obligations[name] = ent
        elif confirmed is not None:
            ent['verdict'] = 'refuted' if confirmed else 'discharged'
            res.obligations[name] = ent
    if a.dump_names:
        for n in sorted(res.obligations):
            print('NAME', n)
    code = finish(res, tier=a.tier, seed=seed, t0=t0,
                  checker_cmd=f'./check {a.prop} --tier {a.tier}' + (f' --src-root {a.src_root}' if a.src_root != '/repo/src' else ''),
                  assumptions=getattr(mod, 'ASSUMPTIONS', []), trusted_base=getattr(mod, 'TRUSTED_BASE', []),
                  not_decided=getattr(mod, 'NOT_DECIDED', []), replay=replay, extra_cov=extra,
                  known_check=known_check, write_evidence=not a.no_evidence)
    sys.exit(code)


if __name__ == '__main__':
    try:
        main()
    except SystemExit:
        raise
    except BaseException:      # an internal error of the checker is never a violation (exit 1): exit 3
        traceback.print_exc()
        print('CHECKER-ERROR internal error of the checker (see the traceback on stderr)')
        sys.exit(3)
