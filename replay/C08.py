"""Replay driver for C08."""
import json
from pyvc.report import write_replay
from replay.C01 import native


def replay(name, e, src_root):
    req = {'model': e.get('model'), 'obligation': name}
    out = native(req, src_root, script='native_c08.py')
    path = write_replay(name, e, note='native replay: real SharesManager / TransferManager / PeerManager / SearchManager with share modes, friends, '
                        'blocks and excluded phrases', extra={'request': req, 'native': out})
    return bool(out.get('confirmed')), path


def known_check(kf, name, e):
    return True


def rerun(path, src_root):
    doc = json.load(open(path))
    out = native(doc.get('request', {}), src_root, script='native_c08.py')
    print(json.dumps(out, indent=1))
    return 1 if out.get('confirmed') else 0
