"""Replay driver for C01: turns a refuted obligation into a native run of the real codec."""
import json
import os
import re
import subprocess
import tempfile

from pyvc.report import write_replay

HERE = os.path.dirname(os.path.abspath(__file__))
NAME = re.compile(r'^C01\.(?P<qual>\w+\.(?:Request|Response))\.(?P<what>[\w-]+)\[(?P<label>.*)\]$')


def parse_label(label):
    guards, absent = {}, []
    if label and label != 'all':
        for part in label.split(','):
            k, _, v = part.partition('=')
            if v in ('T', 'F'):
                guards[k] = (v == 'T')
            elif v == 'absent':
                absent.append(k)
    return guards, absent


def native(req, src_root, script='native_c01.py'):
    with tempfile.NamedTemporaryFile('w', suffix='.json', delete=False) as f:
        json.dump(req, f, default=str)
        p = f.name
    cwd = tempfile.mkdtemp(prefix='native_cwd_')       # a changed tree may write relative paths: keep them out of /verif and /repo
    try:
        env = dict(os.environ, PYTHONPATH=src_root)
        r = subprocess.run(['/venv/bin/python', os.path.join(HERE, script), p], capture_output=True, text=True,
                           env=env, timeout=300, cwd=cwd)
        line = [l for l in r.stdout.splitlines() if l.startswith('{')]
        if not line:
            return {'confirmed': None, 'error': (r.stderr or r.stdout)[-500:]}
        return json.loads(line[-1])
    finally:
        os.unlink(p)
        import shutil
        shutil.rmtree(cwd, ignore_errors=True)


def replay(name, e, src_root):
    m = NAME.match(name)
    if not m:
        if name.startswith('C01.obf') or name.startswith('C01.conn') or name.startswith('C01.undecided[') or 'native-sweep' in name:
            from replay import C01_obf
            return C01_obf.replay(name, e, src_root)
        return None, write_replay(name, e, note='obligation about a codec building block (element/array contract): '
                                                'no message-level input is derived; see detail')
    guards, absent = parse_label(m.group('label'))
    req = {'qual': m.group('qual'), 'guards': guards, 'absent': absent, 'model': e.get('model')}
    out = native(req, src_root)
    path = write_replay(name, e, note='native replay with /venv/bin/python', extra={'request': req, 'native': out,
                        'rerun': f'./check C01 --replay <this file>'})
    return bool(out.get('confirmed')), path


def known_check(kf, name, e):
    """A known finding is keyed by obligation AND witness class (regex on the failing detail)."""
    return re.search(kf['witness'], e.get('detail') or '') is not None


def rerun(path, src_root):
    doc = json.load(open(path))
    out = native(doc['request'], src_root)
    print(json.dumps(out, indent=1))
    return 1 if out.get('confirmed') else 0
