"""Native replay for C17: real TransferShelveCache / Transfer pickling / TransferManager.read_cache in a temp directory."""
import asyncio
import json
import os
import pickle
import sys
import tempfile
sys.path.insert(0, os.path.dirname(os.path.abspath(__file__)))
from nativelib import make_client, verdict, run     # noqa: E402
from aioslsk.transfer.model import Transfer, TransferDirection      # noqa: E402
from aioslsk.transfer.cache import TransferShelveCache              # noqa: E402
from aioslsk.transfer import state as ST                            # noqa: E402

req = json.load(open(sys.argv[1])) if len(sys.argv) > 1 else {}


async def main():
    pairs = []
    m = req.get('model') or {}
    if all(k in m for k in ('user1', 'path1', 'user2', 'path2')):
        pairs.append(((m['user1'], m['path1']), (m['user2'], m['path2'])))
    pairs += [(('ab', 'c'), ('a', 'bc')), (('alice', 'x'), ('bob', 'y'))]
    with tempfile.TemporaryDirectory() as tmp:
        for i, (a, b) in enumerate(pairs):
            if a == b:
                continue
            if req.get('skip_known') and a[0] + a[1] == b[0] + b[1]:
                continue        # witness class of the recorded known finding (known_findings.json: C17.key.injective)
            d = os.path.join(tmp, str(i))
            os.makedirs(d)
            cache = TransferShelveCache(d)
            ts = [Transfer(a[0], a[1], TransferDirection.DOWNLOAD), Transfer(b[0], b[1], TransferDirection.DOWNLOAD)]
            cache.write(ts)
            back = cache.read()
            if len(back) != 2:
                return True, f'wrote transfers {a} and {b}, read back {[(t.username, t.remote_path) for t in back]}', {'transfers': [a, b]}
        # reasons survive as written, also the empty string (a peer may refuse with an empty reason: the download is not retried)
        for fr, ar in (('', None), (None, ''), ('Queued', 'Requested')):
            t = Transfer('bob', 'f', TransferDirection.DOWNLOAD)
            t.state = ST.FailedState(t) if ar is None else ST.AbortedState(t)
            t.fail_reason, t.abort_reason = fr, ar
            t2 = pickle.loads(pickle.dumps(t))
            want_ar = ar
            if (t2.fail_reason, t2.abort_reason) != (fr, want_ar):
                return True, f'fail_reason={fr!r} abort_reason={ar!r} pickled and loaded as fail_reason={t2.fail_reason!r} abort_reason={t2.abort_reason!r}', {'reasons': [fr, ar]}
        # pickling every state and repairing it on load
        for S in (ST.QueuedState, ST.InitializingState, ST.DownloadingState, ST.CompleteState, ST.AbortedState, ST.PausedState, ST.FailedState, ST.IncompleteState):
            for done in (True, False):
                t = Transfer('bob', 'f', TransferDirection.DOWNLOAD)
                t.state = S(t)
                t.filesize, t.bytes_transfered, t.remotely_queued, t.local_path = 10, (10 if done else 3), True, '/x'
                d = os.path.join(tmp, f'{S.__name__}{done}')
                os.makedirs(d)
                TransferShelveCache(d).write([t])
                client = make_client(tmp)
                client.transfers.cache = TransferShelveCache(d)
                await client.transfers.read_cache()
                got = client.transfers.transfers
                if len(got) != 1:
                    return True, f'{S.__name__}: {len(got)} transfers loaded', None
                g = got[0]
                want = {'InitializingState': 'QUEUED', 'DownloadingState': 'COMPLETE' if done else 'INCOMPLETE'}.get(S.__name__, S.VALUE.name)
                if g.state.VALUE.name != want or g.remotely_queued or (g.username, g.remote_path, g.local_path, g.filesize, g.bytes_transfered) != ('bob', 'f', '/x', 10, 10 if done else 3):
                    return True, f'persisted {S.__name__} (done={done}) loaded as {g.state.VALUE.name}, remotely_queued={g.remotely_queued}', None
                if client.transfers not in g.state_listeners:
                    return True, f'{S.__name__}: loaded transfer not wired to the manager', None
    return False, '', None

c, what, inp = run(main(), timeout=120)
verdict(c, what, input=inp)
