"""Native replay for C08: real SharesManager / TransferManager / PeerManager with share modes, friends, named users, blocks, excluded phrases."""
import asyncio
import json
import logging
import os
import sys
import tempfile
from unittest.mock import MagicMock, AsyncMock
logging.disable(logging.CRITICAL)
sys.path.insert(0, os.path.dirname(os.path.abspath(__file__)))
from nativelib import make_client, verdict, run     # noqa: E402
from aioslsk.shares.model import DirectoryShareMode                   # noqa: E402
from aioslsk.exceptions import FileNotSharedError, FileNotFoundError as SlskFileNotFoundError   # noqa: E402
from aioslsk.user.model import BlockingFlag                            # noqa: E402
from aioslsk.transfer.model import Transfer, TransferDirection, AbortReason, FailReason          # noqa: E402
from aioslsk.transfer.state import TransferState                       # noqa: E402
from aioslsk.protocol.messages import (PeerTransferQueue, PeerTransferQueueFailed, PeerTransferRequest, PeerTransferReply,   # noqa: E402
                                       PeerDirectoryContentsRequest, PeerSharesRequest)

req = json.load(open(sys.argv[1])) if len(sys.argv) > 1 else {}
OBL = req.get('obligation') or ''
USERS = ['alice', 'carol', 'mallory']          # alice: friend, carol: named user of C, mallory: stranger


def entitled(mode, user):
    return mode == 'everyone' or (mode == 'friends' and user == 'alice') or (mode == 'users' and user == 'carol')


def fake_connection(username):
    conn = MagicMock()
    conn.username = username
    conn.sent = []
    conn.queue_message = lambda m: conn.sent.append(m)

    async def send_message(m):
        conn.sent.append(m)
    conn.send_message = send_message
    return conn


async def main():
    with tempfile.TemporaryDirectory() as tmp:
        tmp = os.path.realpath(tmp)
        layout = {'pub': 'everyone', 'fri': 'friends', 'usr': 'users'}
        for d in layout:
            os.makedirs(os.path.join(tmp, 'shares', d, 'album'))
            with open(os.path.join(tmp, 'shares', d, 'album', f'Song {d}.mp3'), 'wb') as fh:
                fh.write(b'x' * 10)
        client = make_client(tmp)
        sm, tm = client.shares, client.transfers
        client.settings.users.friends = {'alice'}
        dirs = {}
        for d, mode in layout.items():
            dirs[d] = sm.add_shared_directory(os.path.join(tmp, 'shares', d), share_mode=DirectoryShareMode(mode), users=['carol'] if mode == 'users' else None)
        await sm.scan()
        # 0. two directories of the SAME share mode with different named users: the verdict is per directory, not per mode
        with tempfile.TemporaryDirectory() as tmp2:
            tmp2 = os.path.realpath(tmp2)
            for d in ('for_carol', 'for_dave'):
                os.makedirs(os.path.join(tmp2, 'shares', d))
                with open(os.path.join(tmp2, 'shares', d, f'Tune {d}.mp3'), 'wb') as fh:
                    fh.write(b'x' * 10)
            c2 = make_client(tmp2)
            for d, u in (('for_carol', 'carol'), ('for_dave', 'dave')):
                c2.shares.add_shared_directory(os.path.join(tmp2, 'shares', d), share_mode=DirectoryShareMode('users'), users=[u])
            await c2.shares.scan()
            for user in ('carol', 'dave', 'mallory'):
                vis, lck = c2.shares.query('tune', username=user)
                got = sorted(i.filename for i in vis)
                want = [f'Tune for_{user}.mp3'] if user in ('carol', 'dave') else []
                if got != want or len(vis) + len(lck) != 2:
                    return True, (f"two USERS directories (one for carol, one for dave): query('tune', username={user!r}) lists {got} as normal results "
                                  f"and {sorted(i.filename for i in lck)} as locked"), {'user': user, 'scenario': 'two directories of one mode'}
        # 0b. entitlement is evaluated per request: a friend that is removed from the friends list no longer gets the friends-only files as
        #     normal shares, also when the same reply was built for that user before
        before_v, _ = sm.create_shares_reply('alice')
        client.settings.users.friends = set()
        after_v, after_l = sm.create_shares_reply('alice')
        leaked = [dd.name for dd in after_v if dd.name.startswith('@@' + dirs['fri'].alias) and dd.files]
        client.settings.users.friends = {'alice'}
        if leaked:
            return True, f'alice was removed from the friends list: create_shares_reply(alice) still lists {leaked} as normal shares', {'scenario': 'friend removed'}
        # 1. queries, replies, item lookups per user
        for user in USERS:
            vis, lck = sm.query('song', username=user)
            for it in vis:
                if not entitled(it.shared_directory.share_mode.value, user):
                    return True, f"query('song', username={user!r}) lists {it.get_remote_path()} ({it.shared_directory.share_mode.value}) as a normal result", {'user': user}
            for it in lck:
                if entitled(it.shared_directory.share_mode.value, user):
                    return True, f"query('song', username={user!r}) lists {it.get_remote_path()} as locked although {user} is entitled", {'user': user}
            if len(vis) + len(lck) != 3:
                return True, f"query('song', username={user!r}) returns {len(vis)}+{len(lck)} of 3 files", {'user': user}
            for phrase in ('SONG pub', 'song PUB', 'Song Pub'):
                v2, l2 = sm.query('song', username=user, excluded_search_phrases=[phrase])
                bad = [i.get_query_path() for i in v2 + l2 if phrase.lower() in i.get_query_path().lower()]
                if bad:
                    return True, f'excluded phrase {phrase!r} does not exclude {bad} (user {user})', {'phrase': phrase}
            vdirs, ldirs = sm.create_shares_reply(user)
            for dd in vdirs:
                for d, mode in layout.items():
                    if dd.name.startswith('@@' + dirs[d].alias) and dd.files and not entitled(mode, user):
                        return True, f'create_shares_reply({user!r}) lists files of the {mode} directory {dd.name} as normal shares', {'user': user}
            for d, mode in layout.items():
                remote = f'@@{dirs[d].alias}\\album\\Song {d}.mp3'
                for fn in (sm.get_shared_item_cache,):
                    try:
                        fn(remote, username=user)
                        got = True
                    except FileNotSharedError:
                        got = False
                    if got != entitled(mode, user):
                        return True, f'get_shared_item_cache({remote!r}, {user!r}) {"returns" if got else "raises"} for a {mode} directory', {'user': user}
                try:
                    await sm.get_shared_item(remote, username=user)
                    got = True
                except (FileNotSharedError, SlskFileNotFoundError):
                    got = False
                if got != entitled(mode, user):
                    return True, f'get_shared_item({remote!r}, {user!r}) {"returns" if got else "raises"} for a {mode} directory', {'user': user}
        # 2. upload gates
        for user in USERS:
            for blocked in (False, True):
                client.settings.users.blocked = {user: BlockingFlag.UPLOADS} if blocked else {}
                for d, mode in layout.items():
                    remote = f'@@{dirs[d].alias}\\album\\Song {d}.mp3'
                    for kind in ('queue', 'request'):
                        before = len(tm.transfers)
                        conn = fake_connection(user)
                        if kind == 'queue':
                            await tm._on_peer_transfer_queue(PeerTransferQueue.Request(filename=remote), conn)
                        else:
                            await tm._on_peer_transfer_request(PeerTransferRequest.Request(direction=TransferDirection.UPLOAD.value, ticket=9, filename=remote), conn)
                        ok = entitled(mode, user) and not blocked
                        created = [t for t in tm.transfers[before:]]
                        if not ok and created:
                            return True, f'{kind} request of {user} (blocked={blocked}) for the {mode} file created the upload {created[0]!r}', {'user': user, 'mode': mode}
                        refusals = [m for m in conn.sent if isinstance(m, (PeerTransferQueueFailed.Request, PeerTransferReply.Request))]
                        if not ok and not any(getattr(m, 'reason', None) == FailReason.FILE_NOT_SHARED for m in refusals):
                            return True, f'{kind} request of {user} (blocked={blocked}) for the {mode} file is not refused: {conn.sent}', {'user': user, 'mode': mode}
                        if ok and kind == 'queue' and not tm.find_transfer(user, remote, TransferDirection.UPLOAD):
                            return True, f'{kind} request of the entitled user {user} for the {mode} file created no upload', {'user': user}
                        for t in created:
                            await t.state.abort()
                            await tm.remove(t)
        client.settings.users.blocked = {}
        # 3. re-evaluation after configuration changes (one management cycle each)
        for state_name in ('QUEUED', 'INITIALIZING', 'UPLOADING', 'PAUSED', 'INCOMPLETE'):
            for change in ('block', 'unfriend', 'unshare'):
                client.settings.users.blocked = {}
                client.settings.users.friends = {'alice'}
                remote = f'@@{dirs["fri"].alias}\\album\\Song fri.mp3'
                t = Transfer('alice', remote, TransferDirection.UPLOAD)
                t.local_path = os.path.join(tmp, 'shares', 'fri', 'album', 'Song fri.mp3')
                t.filesize = 10
                await tm.add(t)
                await t.state.queue()
                if state_name in ('INITIALIZING', 'UPLOADING', 'INCOMPLETE'):
                    await t.state.initialize()
                if state_name in ('UPLOADING', 'INCOMPLETE'):
                    await t.state.start_transferring()
                if state_name == 'INCOMPLETE':
                    await t.state.incomplete()
                if state_name == 'PAUSED':
                    await t.state.pause()
                req_t = Transfer('alice', remote + '2', TransferDirection.UPLOAD)
                await tm.add(req_t)
                await req_t.state.queue()
                await req_t.state.abort(reason=AbortReason.REQUESTED)
                if change == 'block':
                    client.settings.users.blocked = {'alice': BlockingFlag.UPLOADS}
                    want = AbortReason.BLOCKED
                elif change == 'unfriend':
                    client.settings.users.friends = set()
                    want = AbortReason.FILE_NOT_SHARED
                else:
                    sm.update_shared_directory(dirs['fri'], share_mode=DirectoryShareMode.USERS, users=['carol'])
                    want = AbortReason.FILE_NOT_SHARED
                await tm.manage_shares_changed()
                if t.state.VALUE != TransferState.ABORTED or t.abort_reason != want:
                    return True, f'upload in {state_name} after {change}: state {t.state.VALUE.name}, abort_reason {t.abort_reason!r} (expected ABORTED / {want!r})', {'state': state_name, 'change': change}
                client.settings.users.blocked = {}
                client.settings.users.friends = {'alice'}
                sm.update_shared_directory(dirs['fri'], share_mode=DirectoryShareMode.FRIENDS, users=[])
                await tm.manage_shares_changed()
                if t.state.VALUE != TransferState.QUEUED:
                    return True, f'upload aborted for {want!r} is {t.state.VALUE.name} after the cause was lifted (expected QUEUED)', {'state': state_name, 'change': change}
                if req_t.state.VALUE != TransferState.ABORTED or req_t.abort_reason != AbortReason.REQUESTED:
                    return True, f'an upload aborted on request became {req_t.state.VALUE.name} / {req_t.abort_reason!r}', {'change': change}
                for x in (t, req_t):
                    await x.state.abort()
                    await tm.remove(x)
        # 4. directory listing of a locked directory (known finding; only replayed for its obligation)
        if OBL == 'C08.directory_reply.locked':
            conn = fake_connection('mallory')
            remote_dir = f'@@{dirs["fri"].alias}\\album'
            await client.peers._on_peer_directory_contents_req(PeerDirectoryContentsRequest.Request(ticket=1, directory=remote_dir), conn)
            listed = [f.filename for m in conn.sent for dd in m.directories for f in dd.files]
            if listed:
                return True, f'PeerDirectoryContentsRequest({remote_dir!r}) from the stranger mallory lists {listed} of a friends-only directory', {'user': 'mallory'}
    return False, '', None

c, what, inp = run(main(), timeout=200)
verdict(c, what, input=inp)
