"""Native replay for C15 on a real UserTrackingManager: a track call in the iteration in which the worker finishes."""
import asyncio
import os
import sys
import tempfile
sys.path.insert(0, os.path.dirname(os.path.abspath(__file__)))
from nativelib import make_client, verdict, run     # noqa: E402
from aioslsk.protocol import messages as M          # noqa: E402
from aioslsk.user.model import TrackingFlag, TrackingState     # noqa: E402


async def main():
    with tempfile.TemporaryDirectory() as tmp:
        client = make_client(tmp)
        tm = client.users._tracking_manager
        sent = []

        async def send(*msgs):
            sent.extend(type(m).__qualname__.split('.')[0] for m in msgs)
        client.network.send_server_messages = send

        async def wait_for(cls_, fields=None, timeout=10):
            return M.AddUser.Response(username=fields['username'], exists=True, status=2)
        client.network.wait_for_server_message = wait_for
        bob = client.users.get_user_object('bob')
        r1 = tm.track_user(bob, TrackingFlag.FRIEND)
        await r1.handled.wait()
        r2 = tm.untrack_user(bob, TrackingFlag.FRIEND)
        await r2.handled.wait()          # the worker has decided to exit in this very iteration
        r3 = tm.track_user(bob, TrackingFlag.REQUESTED)      # before the done-callback of the worker ran
        try:
            await asyncio.wait_for(r3.handled.wait(), 0.5)
            lost = False
        except asyncio.TimeoutError:
            lost = True
        await asyncio.sleep(0.05)
        flags, state = tm.get_tracking_flags('bob'), tm.get_tracking_state('bob')
        if lost or sent != ['AddUser', 'RemoveUser', 'AddUser'] or state != TrackingState.TRACKED or flags != TrackingFlag.REQUESTED:
            return True, (f'track_user issued right after the worker finished was lost: server saw {sent}, flags {flags!r}, state {state.name} '
                          f'although the reason REQUESTED exists'), {'calls': ['track FRIEND', 'untrack FRIEND', 'track REQUESTED']}
        # mixed sequences against a reference count
        for seq in ([('t', 1), ('t', 2), ('u', 1), ('u', 2), ('t', 4)], [('t', 1), ('u', 1), ('t', 1), ('u', 1)], [('t', 3), ('u', 1), ('u', 2)]):
            client = make_client(tmp)
            tm = client.users._tracking_manager
            sent.clear()
            client.network.send_server_messages = send
            client.network.wait_for_server_message = wait_for
            eve = client.users.get_user_object('eve')
            ref, want = 0, []
            for op, bits in seq:
                fl = TrackingFlag(bits)
                r = tm.track_user(eve, fl) if op == 't' else tm.untrack_user(eve, fl)
                new = (ref | bits) if op == 't' else (ref & ~bits)
                if ref == 0 and new != 0:
                    want.append('AddUser')
                if ref != 0 and new == 0:
                    want.append('RemoveUser')
                ref = new
                if r is not None:
                    try:
                        await asyncio.wait_for(r.handled.wait(), 0.5)
                    except asyncio.TimeoutError:
                        return True, f'request {op}{bits} of sequence {seq} was never handled; server saw {sent}', {'sequence': seq}
            await asyncio.sleep(0.02)
            if sent != want:
                return True, f'sequence {seq}: server saw {sent}, expected {want}', {'sequence': seq}
    return False, '', None

c, what, inp = run(main(), timeout=60)
verdict(c, what, input=inp)
