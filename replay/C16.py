"""Replay driver for C16."""
import json
from pyvc.report import write_replay
from replay.C01 import native


def replay(name, e, src_root):
    out = native({}, src_root, script='native_c16.py')
    path = write_replay(name, e, note='native replay on a real client', extra={'request': {}, 'native': out})
    return bool(out.get('confirmed')), path


def rerun(path, src_root):
    out = native({}, src_root, script='native_c16.py')
    print(json.dumps(out, indent=1))
    return 1 if out.get('confirmed') else 0
