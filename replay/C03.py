"""Replay driver for C03."""
import json
from pyvc.report import write_replay
from replay.C01 import native


def replay(name, e, src_root):
    from contracts.C03 import EDGES
    req = {'edges': {k: sorted(v) for k, v in EDGES.items()}}
    out = native(req, src_root, script='native_c03.py')
    path = write_replay(name, e, note='native replay: overlapping operations on a real Transfer, listener trace checked against EDGES',
                        extra={'request': req, 'native': out})
    return bool(out.get('confirmed')), path


def rerun(path, src_root):
    doc = json.load(open(path))
    out = native(doc.get('request', {}), src_root, script='native_c03.py')
    print(json.dumps(out, indent=1))
    return 1 if out.get('confirmed') else 0
