"""Native replay for C04: real PeerConnection.receive_file / send_file over in-memory streams, and the real
TransferManager._download_file with cut points."""
import asyncio
import io
import os
import sys
import tempfile
sys.path.insert(0, os.path.dirname(os.path.abspath(__file__)))
from nativelib import make_client, wire_connection, verdict, run     # noqa: E402
from aioslsk.network.connection import PeerConnection, PeerConnectionType      # noqa: E402
from aioslsk.exceptions import ConnectionReadError        # noqa: E402


class AHandle:
    def __init__(self, data=b''):
        self.buf = io.BytesIO(data)

    async def write(self, d):
        self.buf.seek(0, 2)
        self.buf.write(d)

    async def read(self, n):
        return self.buf.read(n)

    async def seek(self, n):
        self.buf.seek(n)


async def main():
    # nothing missing: must return at once without reading
    c = wire_connection(PeerConnection('h', 1, None, connection_type=PeerConnectionType.FILE, transfer_read_timeout=0.2))

    async def noop(*a, **k):
        c._is_closing = True
    c.disconnect = noop
    h = AHandle()
    try:
        await asyncio.wait_for(c.receive_file(h, 0), 1.0)
    except (ConnectionReadError, asyncio.TimeoutError) as e:
        return True, f'receive_file(handle, 0) waits for data although nothing is missing and ends with {type(e).__name__}: a 0-byte (or already complete) download can never become COMPLETE', {'filesize': 0}
    # exact bytes, any segmentation, cut points
    payload = bytes(range(256)) * 3
    for size in (1, 127, 128, 129, 700):
        for seg in (1, 50, 1000):
            c = wire_connection(PeerConnection('h', 1, None, connection_type=PeerConnectionType.FILE, transfer_read_timeout=0.5))
            c.disconnect = noop
            h, seen = AHandle(), []
            data = payload[:size]
            for i in range(0, size, seg):
                c._reader.feed_data(data[i:i + seg])
            await asyncio.wait_for(c.receive_file(h, size, seen.append), 2.0)
            if h.buf.getvalue() != data or b''.join(seen) != data:
                return True, f'size {size} segmentation {seg}: written {len(h.buf.getvalue())} bytes, reported {len(b"".join(seen))}', {'size': size, 'seg': seg}
    # EOF after k bytes: returns, file holds exactly the prefix
    c = wire_connection(PeerConnection('h', 1, None, connection_type=PeerConnectionType.FILE, transfer_read_timeout=0.5))
    c.disconnect = noop
    h = AHandle()
    c._reader.feed_data(payload[:100])
    c._reader.feed_eof()
    await asyncio.wait_for(c.receive_file(h, 500), 2.0)
    if h.buf.getvalue() != payload[:100]:
        return True, 'prefix not kept after EOF', None
    # send_file sends exactly the file from the current position
    c = wire_connection(PeerConnection('h', 1, None, connection_type=PeerConnectionType.FILE))
    h = AHandle(payload)
    await h.seek(300)
    seen = []
    await c.send_file(h, seen.append)
    if bytes(c._writer.data) != payload[300:] or b''.join(seen) != payload[300:]:
        return True, 'send_file did not send exactly the bytes from the offset', None
    return False, '', None

c, what, inp = run(main(), timeout=60)
verdict(c, what, input=inp)
