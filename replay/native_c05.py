"""Native replay for C05: seeded random populations of transfers/users on a real TransferManager; checks the selection and
start-up decisions of one management cycle against the statement (<= free slots, one per user, never offline / uploading users,
lexicographic priority privileged > friend > online/away)."""
import asyncio
import itertools
import os
import random
import sys
import tempfile
from unittest.mock import MagicMock
sys.path.insert(0, os.path.dirname(os.path.abspath(__file__)))
from nativelib import make_client, verdict, run     # noqa: E402
from aioslsk.transfer.model import Transfer, TransferDirection      # noqa: E402
from aioslsk.transfer import state as ST                            # noqa: E402
from aioslsk.user.model import UserStatus                           # noqa: E402

STATES = [ST.QueuedState, ST.InitializingState, ST.UploadingState, ST.CompleteState, ST.FailedState, ST.AbortedState, ST.PausedState]


def prio(client, name):
    u = client.users.get_user_object(name)
    return (bool(u.privileged), name in client.settings.users.friends, u.status in (UserStatus.ONLINE, UserStatus.AWAY))


async def requeued_upload_is_started_again(tmp):
    """History for the liveness clause: one slot, one queued upload of an eligible user; the management job is idle (waiting for a
    request) when the first attempt fails to reach the peer and the upload goes back to QUEUED inside its own task.  The slot is free and
    the user eligible, so a second attempt has to start without any further outside event."""
    from aioslsk.exceptions import PeerConnectionError
    from unittest.mock import AsyncMock
    client = make_client(tmp)
    tm = client.transfers
    client.settings.transfers.limits.upload_slots = 1
    attempts = []

    async def send_peer_messages(username, *msgs):
        attempts.append(username)
        await asyncio.sleep(0.6)            # longer than the job's pause between two runs: the job is back in queue.get()
        if len(attempts) == 1:
            raise PeerConnectionError('no route to the peer')
        await asyncio.sleep(1000)
    tm._network = MagicMock()
    tm._network.send_peer_messages = send_peer_messages
    tm._user_manager._network = MagicMock()
    tm._user_manager._network.send_server_messages = AsyncMock()
    t = Transfer('bob', 'f.mp3', TransferDirection.UPLOAD)
    t.state = ST.QueuedState(t)
    t.state_listeners.append(tm)
    tm._transfers = [t]
    tm._management_task.start()
    try:
        tm.request_management_cycle([f for f in type(tm._management_flags) if f.name == 'TRANSFER_CHANGE'][0])
        await asyncio.sleep(3.0)
        if len(attempts) == 1 and t.state.VALUE.name == 'QUEUED' and not t.get_tasks():
            return True, ('a queued upload of an eligible user is not started although a slot is free: after the first attempt failed to reach the peer '
                          '(upload back to QUEUED inside its task) no management cycle looked at it again for 2 s; no request is pending'), \
                {'upload_slots': 1, 'history': ['queue upload bob/f.mp3', 'cycle starts it', 'job idle', 'send_peer_messages raises PeerConnectionError', 'wait 2 s'],
                 'attempts': len(attempts), 'state': t.state.VALUE.name, 'pending_flags': int(tm._management_flags.value), 'queue_size': tm._management_queue.qsize()}
    finally:
        task = tm._management_task.cancel()
        for tk in [task] + t.get_tasks():
            if tk is not None:
                tk.cancel()
        await asyncio.sleep(0)
    return False, '', None


async def main():
    with tempfile.TemporaryDirectory() as tmp0:
        c0, what0, inp0 = await requeued_upload_is_started_again(tmp0)
        if c0:
            return c0, what0, inp0
    rnd = random.Random(int(os.environ.get('VERIF_SEED', '0') or 0))
    with tempfile.TemporaryDirectory() as tmp:
        for trial in range(300):
            client = make_client(tmp)
            tm = client.transfers
            users = ['u%d' % i for i in range(rnd.randint(1, 4))]
            keep = []
            for n in users:
                u = client.users.get_user_object(n)
                u.status = rnd.choice(list(UserStatus))
                u.privileged = rnd.random() < 0.3
                keep.append(u)
            client.settings.users.friends = set(n for n in users if rnd.random() < 0.4)
            client.settings.transfers.limits.upload_slots = rnd.randint(0, 3)
            ts = []
            for i in range(rnd.randint(1, 6)):
                t = Transfer(rnd.choice(users), 'f%d' % i, TransferDirection.UPLOAD)
                t.state = rnd.choice(STATES)(t)
                ts.append(t)
            tm._transfers = ts
            processing = [t for t in ts if t.is_processing()]
            free = max(0, client.settings.transfers.limits.upload_slots - len(processing))
            started = []
            tm._initialize_upload = lambda t: started.append(t) or asyncio.sleep(0)
            tm.manage_transfers()
            await asyncio.sleep(0)
            desc = {'users': {n: (str(client.users.get_user_object(n).status), client.users.get_user_object(n).privileged, n in client.settings.users.friends) for n in users},
                    'transfers': [(t.username, t.state.VALUE.name) for t in ts], 'slots': client.settings.transfers.limits.upload_slots}
            if len(started) > free:
                return True, f'{len(started)} uploads started with {free} free slot(s)', desc
            if len({t.username for t in started}) != len(started):
                return True, 'two uploads started for one user', desc
            busy = {t.username for t in processing}
            for t in started:
                if t.state.VALUE.name != 'QUEUED' or client.users.get_user_object(t.username).status == UserStatus.OFFLINE or t.username in busy:
                    return True, f'ineligible upload started: {t.username} {t.state.VALUE.name}', desc
            elig_users = {t.username for t in ts if t.state.VALUE.name == 'QUEUED' and t.username not in busy
                          and client.users.get_user_object(t.username).status != UserStatus.OFFLINE}
            if len(started) < min(free, len(elig_users)):
                return True, f'{len(started)} uploads started although {free} slots are free and {len(elig_users)} users are eligible', desc
            for s in started:
                for n in elig_users - {t.username for t in started}:
                    if prio(client, n) > prio(client, s.username):
                        return True, f'user {n} {prio(client, n)} left waiting while {s.username} {prio(client, s.username)} was started', desc
    return False, '', None

c, what, inp = run(main(), timeout=120)
verdict(c, what, input=inp)
