"""Replay driver for C20."""
import json
from pyvc.report import write_replay
from replay.C01 import native


def replay(name, e, src_root):
    # the sweep of the thorough tier checks the bound that IS proved, L*T + L + 128: the excess of one 128-byte chunk after a stale refill
    # stamp is the recorded known finding (known_findings.json, obligations ...[one chunk granted from a full bucket ...]); anything beyond
    # it, a bucket outside its cap, a stalled waiter or a sleeping unlimited limiter is reported
    # only the two obligations of the recorded known finding ("... whose refill stamp is stale") are replayed against the exact bound;
    # for every other obligation the battery must not count the known 128-byte excess as ITS failing input
    req = {'slack': 0 if 'refill stamp is stale' in name else 128}
    out = native(req, src_root, script='native_c20.py')
    path = write_replay(name, e, note='native replay: real LimitedRateLimiter under a virtual clock, all windows of a schedule battery',
                        extra={'request': req, 'native': out})
    return bool(out.get('confirmed')), path


def known_check(kf, name, e):
    return True      # the obligation name itself carries the witness class (generated under that precondition only)


def rerun(path, src_root):
    doc = json.load(open(path))
    out = native(doc.get('request', {}), src_root, script='native_c20.py')
    print(json.dumps(out, indent=1))
    return 1 if out.get('confirmed') else 0
