"""Replay driver for C20."""
import json
from pyvc.report import write_replay
from replay.C01 import native


def replay(name, e, src_root):
    req = {'slack': 128 if 'burst+1chunk' in name else 0}
    out = native(req, src_root, script='native_c20.py')
    path = write_replay(name, e, note='native replay: real LimitedRateLimiter under a virtual clock, all windows of a schedule battery',
                        extra={'request': req, 'native': out})
    return bool(out.get('confirmed')), path


def known_check(kf, name, e):
    return True      # the obligation name itself carries the witness class (generated under that precondition only)


def rerun(path, src_root):
    doc = json.load(open(path))
    out = native(doc.get('request', {}), src_root, script='native_c20.py')
    print(json.dumps(out, indent=1))
    return 1 if out.get('confirmed') else 0
