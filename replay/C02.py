"""Replay driver for C02."""
import json
import re
from pyvc.report import write_replay
from replay.C01 import native


def replay(name, e, src_root):
    req = {}
    m = re.match(r'^C02\.handler\.(\w+\.\w+)\.no-cancel-escape', name)
    if m:
        req['handler'] = m.group(1)
    out = native(req, src_root, script='native_c02.py')
    path = write_replay(name, e, note='native replay: hostile frames through the real reader loop of a real client',
                        extra={'request': req, 'native': out})
    return bool(out.get('confirmed')), path


def known_check(kf, name, e):
    return re.search(kf['witness'], e.get('detail') or '') is not None


def rerun(path, src_root):
    doc = json.load(open(path))
    out = native(doc.get('request', {}), src_root, script='native_c02.py')
    print(json.dumps(out, indent=1))
    return 1 if out.get('confirmed') else 0
