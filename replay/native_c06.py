"""Native replay for C06: one negotiation per transfer, and nothing happens after abort() returned."""
import asyncio
import os
import sys
import tempfile
from unittest.mock import AsyncMock, MagicMock
sys.path.insert(0, os.path.dirname(os.path.abspath(__file__)))
from nativelib import make_client, verdict, run     # noqa: E402
from aioslsk.transfer.model import Transfer, TransferDirection      # noqa: E402
from aioslsk.transfer import state as ST                            # noqa: E402
from aioslsk.protocol import messages as M                          # noqa: E402


async def main():
    with tempfile.TemporaryDirectory() as tmp:
        client = make_client(tmp)
        tm = client.transfers
        sent = []
        release = asyncio.Event()

        async def slow_send(username, *msgs, **kw):
            await release.wait()              # a slow / hanging connection attempt
            sent.append((username, msgs))
        client.network.send_peer_messages = slow_send
        t = Transfer('bob', 'remote\\file.mp3', TransferDirection.DOWNLOAD)
        await tm.add(t)
        await t.state.queue()
        # two management cycles during one slow connection attempt
        tm.manage_transfers()
        await asyncio.sleep(0)
        tm.manage_transfers()
        await asyncio.sleep(0)
        tasks = [x for x in asyncio.all_tasks() if x.get_name().startswith('queue-remotely')]
        if len(tasks) > 1:
            await tm.abort(t)
            release.set()
            await asyncio.sleep(0.05)
            after = [x.get_name() for x in tasks if not x.cancelled()]
            return True, (f'{len(tasks)} remote-queue tasks for one download ({[x.get_name() for x in tasks]}); after abort() returned, '
                          f'{len(sent)} PeerTransferQueue message(s) were still sent and remotely_queued={t.remotely_queued}'), {'scenario': 'two-cycles'}
        await tm.abort(t)
        release.set()
        await asyncio.sleep(0.05)
        if sent or t.remotely_queued:
            return True, f'messages sent after abort() returned: {sent}', {'scenario': 'abort'}
        # a second PeerTransferRequest before the first initialisation task ran
        t2 = Transfer('eve', 'remote\\other.mp3', TransferDirection.DOWNLOAD)
        await tm.add(t2)
        await t2.state.queue()
        conn = MagicMock()
        conn.username = 'eve'
        started = []

        async def init_dl(transfer, connection, message):
            started.append(1)
            await asyncio.sleep(3600)
        tm._initialize_download = init_dl
        msg = M.PeerTransferRequest.Request(direction=1, ticket=5, filename='remote\\other.mp3', filesize=10)
        await tm._on_peer_transfer_request(msg, conn)
        await tm._on_peer_transfer_request(msg, conn)
        await asyncio.sleep(0)
        if len(started) > 1:
            for x in asyncio.all_tasks():
                if x.get_name().startswith('initialize-download'):
                    x.cancel()
            return True, f'two PeerTransferRequest messages started {len(started)} initialisation tasks for one download', {'scenario': 'two-requests'}
        for x in asyncio.all_tasks():
            if x.get_name().startswith('initialize-download'):
                x.cancel()
    return False, '', None

c, what, inp = run(main())
verdict(c, what, input=inp)
