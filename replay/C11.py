"""Replay driver for C11."""
import json
from pyvc.report import write_replay
from replay.C01 import native


def replay(name, e, src_root):
    req = {'prop': 'C11'}
    out = native(req, src_root, script='native_c10.py')
    path = write_replay(name, e, note='native replay on a real Network / PeerConnection with in-memory sockets', extra={'request': req, 'native': out})
    return bool(out.get('confirmed')), path


def rerun(path, src_root):
    out = native({'prop': 'C11'}, src_root, script='native_c10.py')
    print(json.dumps(out, indent=1))
    return 1 if out.get('confirmed') else 0
