"""Native replay for C18 on real Timer / SearchManager / commands."""
import asyncio
import os
import sys
import tempfile
from unittest.mock import AsyncMock
sys.path.insert(0, os.path.dirname(os.path.abspath(__file__)))
from nativelib import make_client, verdict, run     # noqa: E402
from aioslsk.tasks import Timer          # noqa: E402


async def main():
    errors = []
    asyncio.get_running_loop().set_exception_handler(lambda l, c: errors.append(repr(c.get('exception'))))
    # Timer: a re-armed or cancelled timer never fires for a superseded deadline
    fired = []

    async def cb():
        fired.append(1)
    t = Timer(0.05, cb)
    t.start()
    t.reschedule(0.05)
    await asyncio.sleep(0)          # the old runner's done-callback runs
    await asyncio.sleep(0)
    t.cancel()
    await asyncio.sleep(0.15)
    if fired:
        return True, 'Timer: reschedule() then cancel(): the callback still fired after cancellation', {'scenario': 'timer'}
    t = Timer(0.05, cb)
    t.start()
    t.reschedule(0.2)
    await asyncio.sleep(0.1)
    if fired:
        return True, 'Timer: the superseded deadline fired after reschedule()', {'scenario': 'timer'}
    await asyncio.sleep(0.2)
    if fired != [1]:
        return True, f'Timer: re-armed timer fired {len(fired)} times', {'scenario': 'timer'}
    with tempfile.TemporaryDirectory() as tmp:
        client = make_client(tmp)
        client.session = object()
        client.network.send_server_messages = AsyncMock()
        client.settings.searches.send.request_timeout = 1
        sm = client.searches
        # manual removal, then the timer deadline
        client.settings.searches.send.request_timeout = 1
        req = await sm.search('first')
        sm.remove_request(req)
        await asyncio.sleep(1.2)
        if errors:
            return True, f'remove_request() left the timer armed: later error in the loop: {errors}', {'scenario': 'remove-then-expiry'}
        # the user removes the request from a SearchRequestSentEvent listener, then the deadline passes
        from aioslsk.events import SearchRequestSentEvent, SearchRequestRemovedEvent
        removed = []

        def on_sent(event):
            sm.remove_request(event.query)

        def on_removed(event):
            removed.append(event.query)
        client.events.register(SearchRequestSentEvent, on_sent)
        client.events.register(SearchRequestRemovedEvent, on_removed)
        req = await sm.search('second')
        await asyncio.sleep(1.2)
        client.events.unregister(SearchRequestSentEvent, on_sent)
        if errors or removed:
            return True, (f'a request removed by the user while SearchRequestSentEvent was delivered: its timer fired afterwards '
                          f'(loop errors {errors}, removal events {len(removed)})'), {'scenario': 'remove-in-sent-listener'}
        # a request with a timeout is removed at the timeout although a listener of SearchRequestSentEvent was slow
        client.settings.searches.send.request_timeout = 1

        async def slow(event):
            await asyncio.sleep(1.6)
        client.events.register(SearchRequestSentEvent, slow)
        task = asyncio.ensure_future(sm.search('third'))
        await asyncio.sleep(1.4)
        if not removed or removed[-1].query != 'third':
            return True, 'a request with a 1 s timeout is still registered after 1.4 s: the deadline counts from the end of event delivery', {'scenario': 'slow-sent-listener'}
        await task
        client.events.unregister(SearchRequestSentEvent, slow)
        # live requests have distinct tickets, whichever API created them
        client.settings.searches.send.request_timeout = 0
        from aioslsk.commands import GlobalSearchCommand, UserSearchCommand, RoomSearchCommand
        r1 = await sm.search('one')
        await client.execute(GlobalSearchCommand('two'))
        await client.execute(UserSearchCommand('bob', 'three'))
        await client.execute(RoomSearchCommand('room', 'four'))
        r5 = await sm.search_user('bob', 'five')
        queries = sorted(r.query for r in sm.requests.values())
        if len(sm.requests) != 5:
            return True, f'5 live requests but only {len(sm.requests)} registered ({queries}): tickets collided and a live request was replaced', {'scenario': 'tickets'}
    return False, '', None

c, what, inp = run(main())
verdict(c, what, input=inp)
