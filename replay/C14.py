"""Replay driver for C14."""
import json
from pyvc.report import write_replay
from replay.C01 import native


def replay(name, e, src_root):
    req = {'prop': 'C14'}
    out = native(req, src_root, script='native_c13.py')
    path = write_replay(name, e, note='native replay on a real DistributedNetwork / SearchManager with recording connections', extra={'request': req, 'native': out})
    return bool(out.get('confirmed')), path


def rerun(path, src_root):
    out = native({'prop': 'C14'}, src_root, script='native_c13.py')
    print(json.dumps(out, indent=1))
    return 1 if out.get('confirmed') else 0
