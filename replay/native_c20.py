"""Native replay for C20: drives the REAL LimitedRateLimiter with a virtual clock and checks, over a battery of
request schedules, that the bytes granted in every window [s, e] never exceed L*(te-ts) + L (the property as
stated) -- and separately with one extra chunk of slack.  Prints a JSON verdict."""
import asyncio
import json
import os
import sys
from unittest.mock import patch
sys.path.insert(0, os.path.dirname(os.path.abspath(__file__)))
from nativelib import verdict   # noqa: E402
from aioslsk.network import rate_limiter as RLM   # noqa: E402

req = json.load(open(sys.argv[1])) if len(sys.argv) > 1 else {}
slack = req.get('slack', 0)


STALL_SECONDS, STALL_SLEEPS = 30.0, 200000


class Stalled(Exception):
    pass


class Clock:
    def __init__(self, t):
        self.t = t


def simulate(limit_kbps, schedule, t0=5000.0):
    """schedule: list of ('idle', dt) | ('takes', n).  Returns list of (time, granted_total)."""
    clk = Clock(t0)
    lim = RLM.RateLimiter.create_limiter(limit_kbps)
    trace = [(clk.t, 0)]
    total = 0

    waited = [0.0, 0]

    async def fake_sleep(x):
        clk.t += x
        waited[0] += x
        waited[1] += 1
        # bounded wait: the smallest grant at the smallest limit needs a fraction of a second of refill
        if waited[0] > STALL_SECONDS or waited[1] > STALL_SLEEPS:
            raise Stalled(f'take_tokens() has not returned after {waited[1]} sleeps / {waited[0]:.1f} s of (virtual) waiting '
                          f'(bucket {lim.bucket}, limit {lim.limit_bps} B/s)')

    async def go():
        nonlocal total, lim
        for kind, v in schedule:
            if kind == 'idle':
                clk.t += v
            elif kind == 'limit':
                # what Network.set_*_speed_limit does: new limiter, copy_tokens from the old one
                new = RLM.RateLimiter.create_limiter(v)
                new.copy_tokens(lim)
                lim = new
                trace.append(('limit', v * 1024))
            else:
                trace.append((clk.t, total))          # the instant just before the burst is a window start
                for _ in range(v):
                    waited[0], waited[1] = 0.0, 0
                    total += await lim.take_tokens()
                    trace.append((clk.t, total))
    # plain functions, not mocks: a mock records every call (a waiter that spins would fill the memory)
    with patch('time.monotonic', new=lambda: clk.t), patch('asyncio.sleep', new=fake_sleep):
        asyncio.run(go())
    return lim, trace


def worst_window(trace, L, slack):
    """windows inside the period in which the LAST limit of the schedule is in force"""
    worst = None
    last = max([i for i, x in enumerate(trace) if x[0] == 'limit'] + [-1])
    if last >= 0:
        L = trace[last][1]
        # the instant of the change itself is a valid window start
        prev = [x for x in trace[:last] if x[0] != 'limit'][-1]
        trace = [prev] + trace[last + 1:]
    for i in range(len(trace)):
        for j in range(i + 1, len(trace)):
            ts, gs = trace[i]
            te, ge = trace[j]
            # bytes granted strictly after instant s up to e
            excess = (ge - gs) - (L * (te - ts) + L + slack)
            if excess > 1e-6 and (worst is None or excess > worst[0]):
                worst = (excess, trace[i], trace[j])
    return worst


SCHEDULES = [
    [('limit', 4), ('takes', 1), ('limit', 1), ('idle', 1000.0), ('takes', 12)],   # lowered limit => full bucket, then idle: stale stamp
    [('takes', 1), ('idle', 1000.0), ('takes', 12)],                 # full bucket, long idle (stale stamp), burst
    [('takes', 20)],
    [('takes', 3), ('idle', 0.5), ('takes', 30)],
    [('idle', 3.0), ('takes', 9), ('idle', 2.0), ('takes', 9), ('idle', 0.0), ('takes', 5)],
    [('takes', 8), ('idle', 0.001), ('takes', 8), ('idle', 0.0), ('takes', 40)],
]
for kbps in (1, 2, 50, 10000):
    L = kbps * 1024
    for sch in SCHEDULES:
        if sch[0][0] == 'limit' and kbps != 1:
            continue
        try:
            lim, trace = simulate(kbps, sch)
        except Stalled as e:
            verdict(True, f'limit {kbps} KiB/s: {e}', input={'limit_kbps': kbps, 'schedule': sch})
        w = worst_window(trace, L, slack)
        if w:
            verdict(True, f'limit {kbps} KiB/s: {w[0]:.0f} bytes more than L*T + L{"+" + str(slack) if slack else ""} were granted '
                          f'between t={w[1][0]} (total {w[1][1]}) and t={w[2][0]} (total {w[2][1]})',
                    input={'limit_kbps': kbps, 'schedule': sch})
        if not (0 <= lim.bucket <= lim.limit_bps):
            verdict(True, f'bucket {lim.bucket} outside [0, {lim.limit_bps}]', input={'limit_kbps': kbps, 'schedule': sch})
# unlimited never sleeps
lim = RLM.RateLimiter.create_limiter(0)


async def unl():
    with patch('asyncio.sleep', side_effect=AssertionError('slept')):
        return await lim.take_tokens()
if asyncio.run(unl()) <= 0:
    verdict(True, 'unlimited limiter granted nothing')
verdict(False)
