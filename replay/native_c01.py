"""Native replay for C01 (run with /venv/bin/python, PYTHONPATH=<src_root>).

Reads a JSON request {qual, absent:[...], guards:{...}, model:{...}} on argv[1], builds real message
objects of that class for the presence pattern, trying the solver model's values first and then boundary
values, and checks natively: no exception, bytes == reference layout (pinned table), length prefix,
dispatcher round trip equal.  Prints a JSON verdict."""
import json
import os
import struct
import sys
import zlib
import itertools

req = json.load(open(sys.argv[1]))
LAYOUT = json.load(open(os.path.join(os.path.dirname(os.path.abspath(__file__)), '..', 'contracts', 'c01_layout.json')))

from aioslsk.protocol import messages as M, primitives as P   # noqa: E402

INTS = {'uint8': ('<B', 1), 'uint16': ('<H', 2), 'uint32': ('<I', 4), 'uint64': ('<Q', 8), 'int32': ('<i', 4), '_PeerInitTicket': ('<I', 4)}


def ref_enc(t, sub, v):
    if t in INTS:
        return struct.pack(INTS[t][0], int(v))
    if t == 'boolean':
        return b'\x01' if v else b'\x00'
    if t == 'string':
        b = v.encode('utf-8')
        return struct.pack('<I', len(b)) + b
    if t == 'bytearr':
        return struct.pack('<I', len(v)) + v
    if t == 'ipaddr':
        return bytes(reversed(bytes(int(x) for x in v.split('.'))))
    if t == 'array':
        return struct.pack('<I', len(v)) + b''.join(ref_enc(sub, None, x) for x in v)
    if t in LAYOUT['records']:
        return b''.join(ref_enc(f['type'], f['subtype'], getattr(v, f['name'])) for f in LAYOUT['records'][t]['fields'])
    raise KeyError(t)


def candidates(t, sub, depth=0):
    if t in INTS:
        fmt, w = INTS[t]
        if fmt.islower() and fmt != '<?':
            return [0, -1, 2 ** (8 * w - 1) - 1, -2 ** (8 * w - 1), 1]
        return [0, 2 ** (8 * w) - 1, 1, 2 ** (8 * w - 1), 255, 256]
    if t == 'boolean':
        return [True, False]
    if t == 'string':
        return ['', 'a', 'héllo 世界', 'x' * 130]
    if t == 'bytearr':
        return [b'', b'\x00\xff', bytes(range(200))]
    if t == 'ipaddr':
        return ['0.0.0.0', '1.2.3.4', '255.255.255.255']
    if t == 'array':
        el = candidates(sub, None, depth + 1)
        return [[], [el[0]], [el[1 % len(el)], el[0], el[-1]]]
    if t in LAYOUT['records']:
        cls = getattr(P, t)
        flds = LAYOUT['records'][t]['fields']
        out = []
        for k in range(3):
            vals = {}
            for f in flds:
                c = candidates(f['type'], f['subtype'], depth + 1)
                vals[f['name']] = c[k % len(c)]
            out.append(cls(**vals))
        return out
    raise KeyError(t)


def check(cls, spec, values, fam, kind):
    try:
        m = cls(**values)
        data = m.serialize()
    except Exception as e:
        return f'serialize raised {type(e).__name__}: {e}'
    body = b''
    for f in spec['fields']:
        if values.get(f['name']) is not None:
            body += ref_enc(f['type'], f['subtype'], values[f['name']])
    idb = struct.pack('<B' if spec['id_type'] == 'uint8' else '<I', spec['id'])
    if spec['compressed']:
        if data[4 + len(idb):] and zlib.decompress(data[4 + len(idb):]) != body:
            return f'compressed body differs from pinned layout: {zlib.decompress(data[4 + len(idb):])!r} != {body!r}'
        if data[4:4 + len(idb)] != idb:
            return 'message id differs'
    else:
        ref = struct.pack('<I', len(idb) + len(body)) + idb + body
        if data != ref:
            return f'bytes differ from pinned layout: {data!r} != {ref!r}'
    if struct.unpack('<I', data[:4])[0] != len(data) - 4:
        return 'length prefix wrong'
    famcls = getattr(M, fam)
    disp = 'deserialize_response' if kind == 'Response' else 'deserialize_request'
    try:
        m2 = getattr(famcls, disp)(data)
    except Exception as e:
        return f'decoder raised {type(e).__name__}: {e}'
    if type(m2) is not cls:
        return f'dispatcher produced {type(m2).__qualname__}'
    if m2 != m:
        return f'round trip differs: {m2!r} != {m!r}'
    return None


def main():
    qual = req['qual']
    spec = LAYOUT['messages'][qual]
    outer, kind = qual.split('.')
    try:
        cls = getattr(getattr(M, outer), kind)
    except AttributeError:
        print(json.dumps({'confirmed': True, 'what': 'message class missing', 'input': None}))
        return
    absent = set(req.get('absent', []))
    guards = req.get('guards', {})
    model = req.get('model') or {}
    cand = {}
    for f in spec['fields']:
        nm = f['name']
        if nm in absent:
            cand[nm] = [None]
        elif nm in guards:
            cand[nm] = [guards[nm]]
        else:
            c = candidates(f['type'], f['subtype'])
            mv = [v for k, v in model.items() if k.split('!')[0] == nm]
            if mv and f['type'] in INTS and isinstance(mv[0], int):
                c = [mv[0]] + c
            if mv and f['type'] == 'boolean' and isinstance(mv[0], bool):
                c = [mv[0]] + c
            cand[nm] = c
    names = [f['name'] for f in spec['fields']]
    tried = 0
    # first: diagonal choices (k-th candidate everywhere), then one-field-at-a-time variations
    combos = []
    maxlen = max([len(c) for c in cand.values()] + [1])
    for k in range(maxlen):
        combos.append({n: cand[n][k % len(cand[n])] for n in names})
    for n in names:
        for v in cand[n]:
            base = dict(combos[0])
            base[n] = v
            combos.append(base)
    for values in combos:
        tried += 1
        why = check(cls, spec, values, spec['family'], kind)
        if why is not None:
            print(json.dumps({'confirmed': True, 'what': why, 'input': {k: repr(v) for k, v in values.items()}, 'tried': tried}))
            return
    print(json.dumps({'confirmed': False, 'tried': tried}))


main()
