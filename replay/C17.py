"""Replay driver for C17."""
import json
from pyvc.report import write_replay
from replay.C01 import native


def replay(name, e, src_root):
    req = {'model': e.get('model')}
    if 'key.injective' not in name:
        # only the obligation of the recorded known finding (C17.key.injective: two different (user, path) pairs with equal
        # concatenation) is replayed with that witness class; for every other obligation - and for the sweep of the thorough tier - the
        # battery leaves it out, so that it is never counted as THEIR failing input.  Everything else the battery finds is reported.
        req['skip_known'] = True
    out = native(req, src_root, script='native_c17.py')
    path = write_replay(name, e, note='native replay: real shelve cache and read_cache in a temp directory', extra={'request': req, 'native': out})
    return bool(out.get('confirmed')), path


def known_check(kf, name, e):
    """witness class of the known finding: two DIFFERENT (user, path) pairs whose concatenations are equal"""
    m = e.get('model') or {}
    try:
        u1, p1, u2, p2 = m['user1'], m['path1'], m['user2'], m['path2']
    except KeyError:
        return False
    return (u1, p1) != (u2, p2) and u1 + p1 == u2 + p2


def rerun(path, src_root):
    doc = json.load(open(path))
    out = native(doc.get('request', {}), src_root, script='native_c17.py')
    print(json.dumps(out, indent=1))
    return 1 if out.get('confirmed') else 0
