"""Native replay for C07: differential check of the real SharesManager (scan, add/remove/rescan, query, get_stats) against a brute-force
oracle written from the property statement, over generated directory trees, histories and queries (seeded, deterministic)."""
import asyncio
import itertools
import json
import os
import random
import sys
import tempfile
import logging
logging.disable(logging.CRITICAL)
sys.path.insert(0, os.path.dirname(os.path.abspath(__file__)))
from nativelib import make_client, verdict, run     # noqa: E402
from aioslsk.search.model import SearchQuery        # noqa: E402

req = json.load(open(sys.argv[1])) if len(sys.argv) > 1 else {}
SEED = int(req.get('seed', 7))
ROUNDS = int(req.get('rounds', 14))
WORDS = ['song', 'long', 'one', 'two', 'Song', 'LONG', 'a', 'ab', 'b', 'live', 'été', '音楽', 'x1', '1', 'mp3', 'flac', 'gong', 'on',
         'straße', 'strasse', 'ﬁn', 'fin', 'İstanbul']
SEPS = [' ', '_', '-', '.', ' (', ') ', '[', ']', "'", ' & ', '__']


def boundary(ch):
    return not ch.isalnum()


def occurs(term, path, wildcard=False):
    """term occurs in path as whole word(s), case-insensitively (oracle written from the statement, no regular expressions)"""
    t, p = term.lower(), path.lower()
    if len(t) != len(term) or len(p) != len(path):
        return None             # case folding changes lengths: outside the claim
    i = p.find(t)
    while i >= 0:
        before_ok = wildcard or i == 0 or boundary(p[i - 1])
        after_ok = i + len(t) == len(p) or boundary(p[i + len(t)])
        if before_ok and after_ok:
            return True
        i = p.find(t, i + 1)
    return False


def expected(query, items):
    q = SearchQuery.parse(query)
    terms = query.split()
    inc, wild, exc = set(), set(), set()
    for t in terms:
        lt = t.lower()
        if not any(ch.isalnum() for ch in lt):
            continue
        if t.startswith('*'):
            wild.add(lt[1:])
        elif t.startswith('-'):
            exc.add(lt[1:])
        else:
            inc.add(lt)
    if (inc, wild, exc) != (q.include_terms, q.wildcard_terms, q.exclude_terms):
        return 'parse', (inc, wild, exc), (q.include_terms, q.wildcard_terms, q.exclude_terms)
    if not inc and not wild:
        return 'set', set(), None
    out = set()
    for it in items:
        p = it.get_query_path()
        rs = [occurs(t, p) for t in inc] + [occurs(t, p, True) for t in wild] + [(None if (o := occurs(t, p)) is None else not o) for t in exc]
        if any(r is None for r in rs):
            return 'skip', None, None
        if all(rs):
            out.add(it)
    return 'set', out, None


def gen_name(rnd):
    n = rnd.randint(1, 3)
    s = rnd.choice(WORDS)
    for _ in range(n - 1):
        s += rnd.choice(SEPS) + rnd.choice(WORDS)
    return s.strip()


def gen_queries(rnd, names):
    qs = set()
    words = set()
    for n in names:
        for wd in ''.join(ch if ch.isalnum() else ' ' for ch in n).split():
            words.add(wd)
    words = sorted(words)
    for _ in range(60):
        k = rnd.randint(1, 3)
        parts = []
        for _ in range(k):
            wd = rnd.choice(words + WORDS)
            r = rnd.random()
            if r < 0.25:
                cut = rnd.randint(0, max(0, len(wd) - 1))
                parts.append('*' + wd[cut:])
            elif r < 0.4:
                parts.append('-' + wd)
            elif r < 0.55:
                parts.append(wd + rnd.choice(['-', '_', '.', "'"]) + rnd.choice(words))
            elif r < 0.62:
                parts.append('*' + wd[1:] + rnd.choice(['-', ' ']) + rnd.choice(words))
            elif r < 0.7:
                parts.append(wd[:max(1, len(wd) - 1)])
            elif r < 0.75:
                parts.append(wd.upper())
            else:
                parts.append(wd)
        qs.add(' '.join(parts))
    qs.update(['*ong', '*ong one', '-mp3', '____', '*-two', 'song -one', '*a'])
    return sorted(qs)


def disk_files(root):
    out = []
    for d, _dirs, files in os.walk(root):
        for f in files:
            out.append(os.path.join(d, f))
    return out


def check_index(sm, label):
    """every file on disk under a shared directory is indexed exactly once, under the innermost shared directory; stats equal the index"""
    dirs = list(sm.shared_directories)
    seen = {}
    for d in dirs:
        for it in d.items:
            p = os.path.normpath(it.get_absolute_path())
            if p in seen:
                return f'{label}: {p} is indexed twice ({seen[p].directory} and {d.directory})'
            seen[p] = d
    on_disk = set()
    for d in dirs:
        on_disk.update(os.path.normpath(p) for p in disk_files(d.absolute_path))
    if set(seen) != on_disk:
        return f'{label}: index {sorted(set(seen) ^ on_disk)[:3]} differs from the files on disk'
    why = check_owner(sm, label)
    if why:
        return why
    for p, d in seen.items():
        inner = max((x for x in dirs if os.path.commonpath([x.absolute_path, p]) == x.absolute_path), key=lambda x: len(x.absolute_path))
        if inner is not d:
            return f'{label}: {p} is indexed under {d.absolute_path}, the innermost shared directory is {inner.absolute_path}'
    folders, files = sm.get_stats()
    want_files = len(seen)
    want_folders = sum(len({it.subdir for it in d.items}) for d in dirs)
    if (folders, files) != (want_folders, want_files):
        return f'{label}: get_stats() == {(folders, files)}, index has {(want_folders, want_files)}'
    return None


def check_owner(sm, label):
    for d in sm.shared_directories:
        for it in d.items:
            if it.shared_directory is not d:
                return f'{label}: item {it.get_absolute_path()} sits in the items of {d.absolute_path} but is owned by {it.shared_directory.absolute_path}'
            if not os.path.exists(it.get_absolute_path()) and False:
                return f'{label}: {it.get_absolute_path()} does not exist'
    return None


def check_innermost(sm, label):
    """each indexed file is an item of the INNERMOST shared directory that contains it (also right after a directory was added or removed,
    before the next scan)"""
    dirs = list(sm.shared_directories)
    for d in dirs:
        for it in d.items:
            p = it.get_absolute_path()
            inner = [o for o in dirs if o is not d and o.absolute_path.startswith(d.absolute_path.rstrip(os.sep) + os.sep)
                     and p.startswith(o.absolute_path.rstrip(os.sep) + os.sep)]
            if inner:
                return (f'{label}: {p} is an item of the shared directory {d.absolute_path} although the nested shared directory '
                        f'{inner[0].absolute_path} contains it')
    return None


def check_queries(sm, rnd, label, cap=None):
    live = [it for d in sm.shared_directories for it in d.items]
    names = [it.get_query_path() for it in live] or ['song one']
    for q in gen_queries(rnd, names):
        kind, want, got_parse = expected(q, live)
        if kind == 'parse':
            return f'{label}: SearchQuery.parse({q!r}) == {got_parse}, expected {want}'
        if kind == 'skip':
            continue
        try:
            vis, locked = sm.query(q)
        except Exception as exc:
            return f'{label}: query({q!r}) raises {exc!r}'
        got = set(vis) | set(locked)
        if len(vis) != len(set(vis)):
            return f'{label}: query({q!r}) returns an item twice'
        mx = sm._settings.searches.receive.max_results
        if len(got) > mx:
            return f'{label}: query({q!r}) returns {len(got)} items, max_results is {mx}'
        if not got <= want:
            if os.environ.get('C07_DEBUG'):
                import gc
                x = sorted(got - want, key=lambda i: i.filename)[0]
                print('OWNER-SHARED?', any(x.shared_directory is d for d in sm.shared_directories), [d.absolute_path for d in sm.shared_directories], 'abs', x.get_absolute_path(), 'exists', os.path.exists(x.get_absolute_path()), 'in-owner-items', x in x.shared_directory.items, file=sys.stderr)
                from aioslsk.shares.model import SharedDirectory as _SD
                for o in gc.get_objects():
                    if isinstance(o, _SD) and any(i is x for i in o.items):
                        print('HELD-BY-DIR', o.absolute_path, 'shared-now', any(o is d for d in sm.shared_directories), file=sys.stderr)
                print('sets', [(id(r), len(r), r is got, r is want) for r in gc.get_referrers(x) if isinstance(r, set)], file=sys.stderr)
                print('LIVE?', x in live, [type(r).__name__ + ':' + repr(r)[:200] for r in gc.get_referrers(x)], file=sys.stderr)
            bad = sorted(i.get_query_path() for i in got - want)[:3]
            return f'{label}: query({q!r}) returns {bad} which do not match (or are not shared)'
        if len(got) < min(mx, len(want)):
            missing = sorted(i.get_query_path() for i in want - got)[:3]
            return f'{label}: query({q!r}) misses {missing} (returned {len(got)} of {len(want)}, max_results {mx})'
    return None


async def nested_three_levels():
    """deterministic scenario: three nested shared directories added / removed in every order"""
    for order in itertools.permutations(['music', 'music/rock', 'music/rock/live']):
        with tempfile.TemporaryDirectory() as tmp:
            tmp = os.path.realpath(tmp)
            for d, f in (('music', 'a song.mp3'), ('music/rock', 'b song.mp3'), ('music/rock/live', 'c song.mp3'), ('music/rock/live/cd1', 'd song.mp3'), ('music/pop', 'e song.mp3')):
                os.makedirs(os.path.join(tmp, d), exist_ok=True)
                open(os.path.join(tmp, d, f), 'w').close()
            client = make_client(tmp)
            sm = client.shares
            added = {}
            for d in order:
                added[d] = sm.add_shared_directory(os.path.join(tmp, d))
                why = check_owner(sm, f'nested add {d} (order {order})') or check_innermost(sm, f'nested add {d}, before the scan (order {order})')
                if why:
                    return why
                await sm.scan()
                why = check_index(sm, f'nested add {d} + scan (order {order})')
                if why:
                    return why
            for d in order:
                sm.remove_shared_directory(added[d])
                why = check_owner(sm, f'nested remove {d} (order {order})') or check_index_subset(sm, f'nested remove {d} (order {order})') \
                    or check_innermost(sm, f'nested remove {d} (order {order})')
                if why:
                    return why
    return None


async def mirrored_directories():
    """two separate shared directories with the same relative content and the same modification times (a copytree backup): every file is a
    file of its own and is returned by a matching query"""
    with tempfile.TemporaryDirectory() as tmp:
        tmp = os.path.realpath(tmp)
        for top in ('music', 'backup'):
            for d, f in (('', 'a song.mp3'), ('rock', 'b song.mp3')):
                os.makedirs(os.path.join(tmp, top, d), exist_ok=True)
                p = os.path.join(tmp, top, d, f)
                open(p, 'w').close()
                os.utime(p, (1000, 1000))
        client = make_client(tmp)
        sm = client.shares
        for top in ('music', 'backup'):
            sm.add_shared_directory(os.path.join(tmp, top))
        await sm.scan()
        why = check_index(sm, 'two mirrored shared directories')
        if why:
            return why
        visible, locked = sm.query('song')
        paths = sorted(i.get_absolute_path() for i in visible + locked)
        want = sorted(disk_files(tmp))
        if paths != want:
            return f'two mirrored shared directories: query "song" returned {len(paths)} of {len(want)} files: {[os.path.relpath(p, tmp) for p in paths]}'
    return None


def check_index_subset(sm, label):
    """without a rescan: no file indexed twice, every item under the innermost shared directory containing it"""
    dirs = list(sm.shared_directories)
    seen = {}
    for d in dirs:
        for it in d.items:
            p = os.path.normpath(it.get_absolute_path())
            if p in seen:
                return f'{label}: {p} is indexed twice'
            seen[p] = d
    for p, d in seen.items():
        inner = max((x for x in dirs if os.path.commonpath([x.absolute_path, p]) == x.absolute_path), key=lambda x: len(x.absolute_path))
        if inner is not d:
            return f'{label}: {p} is indexed under {d.absolute_path}, the innermost shared directory is {inner.absolute_path}'
    return None


async def main():
    why = await nested_three_levels()
    if why:
        return True, why, {'scenario': 'three nested shared directories'}
    why = await mirrored_directories()
    if why:
        return True, why, {'scenario': 'two mirrored shared directories'}
    rnd = random.Random(SEED)
    for rno in range(ROUNDS):
        with tempfile.TemporaryDirectory() as tmp:
            tmp = os.path.realpath(tmp)
            root = os.path.join(tmp, 'shares')
            # a tree: up to 3 top directories with nested subdirectories and up to ~25 files
            dirs = []
            for i in range(rnd.randint(1, 3)):
                top = os.path.join(root, gen_name(rnd) + str(i))
                dirs.append(top)
                for j in range(rnd.randint(0, 2)):
                    sub = os.path.join(top, gen_name(rnd) + str(j))
                    dirs.append(sub)
                    if rnd.random() < 0.5:
                        dirs.append(os.path.join(sub, gen_name(rnd)))
            for d in dirs:
                os.makedirs(d, exist_ok=True)
                for _ in range(rnd.randint(0, 4)):
                    open(os.path.join(d, gen_name(rnd) + rnd.choice(['.mp3', '.flac', ''])), 'w').close()
            client = make_client(tmp)
            sm = client.shares
            sm._settings.searches.receive.max_results = rnd.choice([1, 2, 3, 100])
            shared = []
            for step in range(8):
                op = rnd.choice(['add', 'add', 'remove', 'rescan', 'touch', 'delete', 'create', 'update'])
                label = f'seed {SEED} round {rno} step {step} {op}'
                if op == 'add':
                    cand = [d for d in dirs if not sm.is_directory_shared(d)]
                    if not cand:
                        continue
                    d = rnd.choice(cand)
                    sd = sm.add_shared_directory(d)
                    shared.append(sd)
                    why = check_queries(sm, rnd, label + ' (before the scan)') or check_owner(sm, label)
                    if why:
                        return True, why, {'seed': SEED, 'round': rno, 'step': step}
                    await sm.scan_directory_files(sd)
                elif op == 'remove' and shared:
                    sd = shared.pop(rnd.randrange(len(shared)))
                    sm.remove_shared_directory(sd)
                elif op == 'rescan':
                    await sm.scan()
                elif op in ('touch', 'delete', 'create'):
                    files = disk_files(root)
                    if op == 'create' or not files:
                        open(os.path.join(rnd.choice(dirs), gen_name(rnd) + '.ogg'), 'w').close()
                    elif op == 'delete':
                        os.unlink(rnd.choice(files))
                    else:
                        f = rnd.choice(files)
                        os.utime(f, (1, rnd.randint(1, 10 ** 6)))
                    await sm.scan()
                elif op == 'update' and shared:
                    pass
                why = check_queries(sm, rnd, label)
                if why:
                    return True, why, {'seed': SEED, 'round': rno, 'step': step}
                if op in ('rescan', 'touch', 'delete', 'create', 'add', 'remove'):
                    why = check_index(sm, label)
                    if why:
                        return True, why, {'seed': SEED, 'round': rno, 'step': step}
            await sm.scan()
            why = check_index(sm, f'seed {SEED} round {rno} final scan') or check_queries(sm, rnd, f'seed {SEED} round {rno} final')
            if why:
                return True, why, {'seed': SEED, 'round': rno}
    return False, '', None

c, what, inp = run(main(), timeout=300)
verdict(c, what, input=inp)
