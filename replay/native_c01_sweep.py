"""Native sweep for C01 used when the verifier has no verdict: round trips through the real codec for the compressed replies at many sizes and
compression ratios, and for every message class with default-ish field values through the connection-level entry points."""
import dataclasses
import json
import sys
import zlib
from aioslsk.protocol import messages as M
from aioslsk.protocol.primitives import FileData, DirectoryData, Attribute
from aioslsk.network.connection import PeerConnection, ServerConnection, PeerConnectionState, PeerConnectionType


def out(c, what='', inp=None):
    print(json.dumps({'confirmed': c, 'what': what, 'input': inp}, default=repr))
    sys.exit(0)


def files(n, name):
    return [FileData(1, name + (str(i) if name != 'same' else ''), 1000 + i, 'mp3', [Attribute(0, 320), Attribute(1, 200)]) for i in range(n)]


try:
    for n in (0, 1, 5, 50, 200, 1000):
        for name in ('same', 'track', 'x' * 100):
            msgs = [
                M.PeerSharesReply.Request(directories=[DirectoryData('@@abc\\d', files(n, name))], locked_directories=[DirectoryData('@@abc\\l', files(n // 2, name))]),
                M.PeerSearchReply.Request(username='u', ticket=7, results=files(n, name), has_slots_free=True, avg_speed=1, queue_size=0, locked_results=files(n // 3, name)),
                M.PeerDirectoryContentsReply.Request(ticket=3, directory='@@abc\\d', directories=[DirectoryData('@@abc\\d', files(n, name))]),
            ]
            for m in msgs:
                wire = m.serialize()
                body = wire[8:]
                try:
                    plain = zlib.decompress(body)
                except zlib.error as e:
                    out(True, f'{type(m).__qualname__} with {n} files: the payload is not one zlib stream ({e})', {'files': n, 'name': name})
                back = type(m).deserialize(0, wire)
                if back != m:
                    out(True, f'{type(m).__qualname__} with {n} files named {name[:8]!r}: deserialize(serialize(m)) != m (compression ratio {len(plain) / max(1, len(body)):.1f})',
                        {'files': n, 'name': name})
                for obf in (False, True):
                    c = PeerConnection('h', 1, None, obfuscated=obf, connection_type=PeerConnectionType.PEER)
                    c.connection_state = PeerConnectionState.ESTABLISHED
                    data = c.encode_message_data(m)
                    got = c.decode_message_data(data)
                    if got != m:
                        out(True, f'{type(m).__qualname__} with {n} files over a {"obfuscated" if obf else "plain"} connection does not decode to itself', {'files': n})
    # strings come back exactly as sent: no normalisation (decomposed accents, Hangul jamo, compatibility characters, U+212B)
    for text in ('cafe\u0301', '\u1112\u1161\u11ab', '\u212b', '\ufb01n', 'e\u0301\u0300', 'caf\u00e9'):
        for m in (M.FileSearch.Request(1, text), M.GetUserStatus.Request(text), M.PeerPlaceInQueueRequest.Request(text)):
            back = type(m).deserialize(0, m.serialize())
            if back != m:
                out(True, f'{type(m).__qualname__} with the string {text!r} ({[hex(ord(ch)) for ch in text]}) decodes to {back!r}', {'text': text})
    # appending frames to a buffer that already holds data (the public serialize_into): the bytes before stay, the frame appended is the
    # frame serialize() produces
    for m in (M.Ping.Request(), M.GetUserStatus.Request('bob'), M.FileSearch.Request(1, 'query'),
              M.PeerSearchReply.Request(username='u', ticket=7, results=files(3, 'track'), has_slots_free=True, avg_speed=1, queue_size=0, locked_results=[])):
        for prefix in (b'', b'\x01\x02\x03', M.Ping.Request().serialize()):
            buf = bytearray(prefix)
            if isinstance(m, M.PeerSearchReply.Request):
                m.serialize_into(buf, compress=True)
                want = m.serialize()
                ok = bytes(buf[:len(prefix)]) == prefix and type(m).deserialize(0, bytes(buf[len(prefix):])) == m and len(buf) - len(prefix) == len(want)
            else:
                m.serialize_into(buf)
                ok = bytes(buf) == prefix + m.serialize()
            if not ok:
                out(True, f'{type(m).__qualname__}.serialize_into(buffer holding {len(prefix)} bytes): the buffer is {bytes(buf)[:40]!r}..., expected the old '
                          f'content followed by the frame {m.serialize()[:24]!r}...', {'prefix': prefix.hex()})
except Exception as e:     # noqa
    out(True, f'codec raised {e!r}', None)
out(False)
