"""Native replay for the obfuscation obligations: checks the real functions against a reference
implementation of the pinned scheme (byte j is XORed with byte j%4 of rotl32(K, (j//4 + 1) % 32))
for boundary lengths and keys.  Prints a JSON verdict."""
import json
import sys
from aioslsk.protocol import obfuscation as O


def rotl32(x, r):
    r %= 32
    return ((x << r) | (x >> (32 - r))) & 0xFFFFFFFF if r else x


def ref_encode(d, k):
    K = int.from_bytes(k, 'little')
    out = bytearray()
    for j, b in enumerate(d):
        kk = rotl32(K, (j // 4 + 1) % 32).to_bytes(4, 'little')
        out.append(b ^ kk[j % 4])
    return k + bytes(out)


keys = [b'\x00\x00\x00\x00', b'\xff\xff\xff\xff', b'\x01\x00\x00\x80', b'\x12\x34\x56\x78', b'\x80\x00\x00\x01']
lens = [0, 1, 3, 4, 5, 8, 124, 125, 127, 128, 129, 131, 132, 133, 256, 257, 300]
for k in keys:
    for r in range(32):
        K = int.from_bytes(k, 'little')
        want = (((K >> r) | (K << (32 - r))) & 0xFFFFFFFF).to_bytes(4, 'little')
        try:
            got = O.rotate_key(k, r)
        except Exception as e:
            print(json.dumps({'confirmed': True, 'what': f'rotate_key raised {e!r}', 'input': [k.hex(), r]}))
            sys.exit(0)
        if got != want:
            print(json.dumps({'confirmed': True, 'what': f'rotate_key({k.hex()},{r}) = {got.hex()} != rotr32 {want.hex()}', 'input': [k.hex(), r]}))
            sys.exit(0)
    for n in lens:
        d = bytes((7 * i + 3) % 256 for i in range(n))
        try:
            e = O.encode(d, k)
            if e != ref_encode(d, k):
                print(json.dumps({'confirmed': True, 'what': 'encode differs from the pinned scheme', 'input': {'key': k.hex(), 'len': n}}))
                sys.exit(0)
            back = O.decode(ref_encode(d, k))
        except Exception as ex:
            print(json.dumps({'confirmed': True, 'what': f'raised {ex!r}', 'input': {'key': k.hex(), 'len': n}}))
            sys.exit(0)
        if back != d:
            print(json.dumps({'confirmed': True, 'what': 'decode(encode(d,k)) != d', 'input': {'key': k.hex(), 'len': n}}))
            sys.exit(0)
# connection level
try:
    from aioslsk.network.connection import PeerConnection
    for obf in (False, True):
        c = PeerConnection('h', 1, None, obfuscated=obf)
        c.connection_state = None
        payload = b'\x05\x00\x00\x00\x01abcd'
        out = c.encode_message_data(payload)
        plain = O.decode(out) if obf else out
        if plain != payload or (obf and len(out) != len(payload) + 4):
            print(json.dumps({'confirmed': True, 'what': 'encode_message_data does not produce the (de-obfuscatable) frame', 'input': {'obfuscated': obf}}))
            sys.exit(0)
        seen = []
        c.deserialize_message = lambda data: seen.append(data) or 'M'
        c.decode_message_data(out)
        if seen != [payload]:
            print(json.dumps({'confirmed': True, 'what': 'decode_message_data hands the wrong bytes to the deserialiser', 'input': {'obfuscated': obf}}))
            sys.exit(0)
except Exception as ex:
    print(json.dumps({'confirmed': True, 'what': f'connection codec raised {ex!r}', 'input': None}))
    sys.exit(0)
print(json.dumps({'confirmed': False}))
