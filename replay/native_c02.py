"""Native replay for C02: hostile frames through the REAL reader of a real client's server / peer connection.

Scenarios: (1) frames with undecodable / unknown bodies between valid frames, each decoder exception type;
(2) decode_message_data on hostile byte strings must raise only MessageDeserializationError;
(3) handler scenario named in the request (e.g. two WishlistInterval frames).  A scenario fails when the reader
task ends while the connection is open, an exception escapes, or a later valid frame is not delivered."""
import asyncio
import json
import os
import struct
import sys
import tempfile
import zlib
sys.path.insert(0, os.path.dirname(os.path.abspath(__file__)))
from nativelib import make_client, wire_connection, verdict, run   # noqa: E402

req = json.load(open(sys.argv[1])) if len(sys.argv) > 1 else {}

from aioslsk.protocol import messages as M                        # noqa: E402
from aioslsk.exceptions import MessageDeserializationError        # noqa: E402
from aioslsk.events import MessageReceivedEvent                   # noqa: E402


def frame(body: bytes) -> bytes:
    return struct.pack('<I', len(body)) + body


HOSTILE = [
    b'',                                             # empty body (no message id)
    b'\x01',                                         # truncated id
    struct.pack('<I', 0xFFFFFF),                     # unknown message code
    struct.pack('<I', 0x01) + b'\x01' + b'\xff\xff\xff\xff',   # Login.Response with a lying string length
    struct.pack('<I', 0x01) + b'\x01' + struct.pack('<I', 5) + b'\x81\x8d\x8f\x90\x9d' + b'\x00' * 4,  # invalid utf-8 and cp1252
    struct.pack('<I', 0x40) + struct.pack('<I', 0xFFFFFFFF),   # RoomList with a lying array count
    struct.pack('<I', 0x03) + struct.pack('<I', 1) + b'a' + b'\x01\x02',   # GetPeerAddress with a short ip
    struct.pack('<I', 0x05) + b'\x00' * 3,           # truncated ints
    struct.pack('<I', 0x16) + b'\xff' * 11,
]


async def scenario_frames(handler_frames=None):
    with tempfile.TemporaryDirectory() as tmp:
        client = make_client(tmp)
        conn = wire_connection(client.network.server_connection)
        got = []
        listener = lambda e: got.append(type(e.message).__qualname__)   # noqa: E731 (the bus keeps weak references)
        client.events.register(MessageReceivedEvent, listener)
        loop_errors = []
        asyncio.get_running_loop().set_exception_handler(lambda l, c: loop_errors.append(c))
        task = asyncio.create_task(conn._message_reader_loop())
        marker = M.ExcludedSearchPhrases.Response(phrases=['zz']).serialize()
        seq = []
        for h in (handler_frames if handler_frames is not None else HOSTILE):
            seq.append(h if handler_frames is not None else frame(h))
            seq.append(marker)
        # arbitrary TCP segmentation: feed byte by byte for the first frames, then in one piece
        data = b''.join(seq)
        for i in range(0, min(len(data), 64)):
            conn._reader.feed_data(data[i:i + 1])
            await asyncio.sleep(0)
        conn._reader.feed_data(data[64:])
        for _ in range(50):
            await asyncio.sleep(0.01)
            if got.count('ExcludedSearchPhrases.Response') >= len(seq) // 2:
                break
        n_markers = got.count('ExcludedSearchPhrases.Response')
        alive = not task.done()
        state = conn.state.name
        task.cancel()
        try:
            await task
        except BaseException:
            pass
        if not alive and state == 'CONNECTED':
            return f'reader task ended while the connection is still {state}; delivered {got}'
        if n_markers != len(seq) // 2:
            return f'valid frames after a bad frame were not delivered once each: {n_markers}/{len(seq) // 2}, delivered {got}'
        return None


async def scenario_order(kind):
    """valid frames only: a LARGE frame (body > 64 KiB) followed by small ones, under several TCP segmentations, with a listener that is
    slow for the first message: every frame is delivered once, in the order sent"""
    with tempfile.TemporaryDirectory() as tmp:
        for cut in ('one-piece', 'tail-joined', 'bytes-then-rest'):
            client = make_client(tmp)
            if kind == 'server':
                conn = wire_connection(client.network.server_connection)
                big = M.ExcludedSearchPhrases.Response(phrases=['x' * 50] * 2000).serialize()
                small = [M.ExcludedSearchPhrases.Response(phrases=[t]).serialize() for t in ('one', 'two', 'three')]
                label = lambda m: 'big' if len(m.phrases) > 1 else m.phrases[0]      # noqa: E731
            else:
                from aioslsk.network.connection import PeerConnection, PeerConnectionType, PeerConnectionState
                conn = wire_connection(PeerConnection('1.2.3.4', 1, client.network, username='bob', connection_type=PeerConnectionType.PEER))
                conn.connection_state = PeerConnectionState.ESTABLISHED
                big = M.PeerUserInfoReply.Request(description='d' * 100000, has_picture=False).serialize()
                small = [M.PeerPlaceInQueueReply.Request(filename=t, place=1).serialize() for t in ('one', 'two', 'three')]
                label = lambda m: 'big' if hasattr(m, 'description') else m.filename      # noqa: E731
            got = []

            async def listener(e, _got=got, _label=label):
                first = not _got and not getattr(listener, 'busy', False)
                if first:
                    listener.busy = True
                    await asyncio.sleep(0.05)       # the first message takes a while to handle
                _got.append(_label(e.message))
            listener.busy = False
            client.events.register(MessageReceivedEvent, listener)
            task = asyncio.create_task(conn._message_reader_loop())
            data = big + b''.join(small)
            if cut == 'one-piece':
                conn._reader.feed_data(data)
            elif cut == 'tail-joined':
                k = len(big) - 1000                 # the last part of the large body arrives together with the following frames
                conn._reader.feed_data(data[:k])
                await asyncio.sleep(0.01)
                conn._reader.feed_data(data[k:])
            else:
                for i in range(8):
                    conn._reader.feed_data(data[i:i + 1])
                    await asyncio.sleep(0)
                conn._reader.feed_data(data[8:])
            for _ in range(100):
                await asyncio.sleep(0.01)
                if len(got) >= 4:
                    break
            await asyncio.sleep(0.05)
            task.cancel()
            try:
                await task
            except BaseException:
                pass
            if got != ['big', 'one', 'two', 'three']:
                return f'{kind} connection, segmentation {cut}: sent big, one, two, three - delivered {got}'
    return None


def scenario_no_leak():
    """what a frame decodes to does not depend on frames decoded before: a truncated frame whose first fields were parsed, then a valid frame
    of the same class WITHOUT its optional / conditional fields"""
    full = M.PeerUserInfoReply.Request(description='d', has_picture=True, picture=b'SECRET PICTURE', upload_slots=1, queue_size=2, has_slots_free=True).serialize()
    plain = M.PeerUserInfoReply.Request(description='other', has_picture=False).serialize()
    for cut in range(9, len(full)):
        bad = full[:cut]
        bad = struct.pack('<I', len(bad) - 4) + bad[4:]
        try:
            M.PeerUserInfoReply.Request.deserialize(0, bad)
        except Exception:       # noqa
            pass
        got = M.PeerUserInfoReply.Request.deserialize(0, plain)
        if got.picture is not None or got.description != 'other':
            return f'after a truncated PeerUserInfoReply (cut at byte {cut}) a valid reply without picture decodes with picture={got.picture!r}'
    a = M.Login.Response.deserialize(0, M.Login.Response(success=True, greeting='hello', ip='1.2.3.4', md5hash='x' * 32, privileged=True).serialize())
    b = M.Login.Response.deserialize(0, M.Login.Response(success=False, reason='INVALIDPASS').serialize())
    if b.greeting is not None or b.ip is not None:
        return f'a failed Login.Response decoded after a successful one carries greeting={b.greeting!r} ip={b.ip!r}'
    return None


def scenario_decode():
    from aioslsk.network.connection import PeerConnection, ServerConnection, PeerConnectionState
    for obf in (False, True):
        for mk in ('server', 'peer-init', 'peer', 'distributed'):
            if mk == 'server':
                c = ServerConnection('h', 1, None, obfuscated=obf)
            else:
                c = PeerConnection('h', 1, None, obfuscated=obf, connection_type='D' if mk == 'distributed' else 'P')
                c.connection_state = PeerConnectionState.AWAITING_INIT if mk == 'peer-init' else PeerConnectionState.ESTABLISHED
            for h in HOSTILE + [b'\x00' * 3, zlib.compress(b'x')[:-2]]:
                data = frame(h)
                if obf:
                    from aioslsk.protocol import obfuscation
                    data = obfuscation.encode(data)
                for cut in (len(data), 3, 0):
                    try:
                        c.decode_message_data(data[:cut])
                    except MessageDeserializationError:
                        pass
                    except Exception as e:      # noqa
                        return f'decode_message_data({mk}, obfuscated={obf}) lets {type(e).__name__} escape for {data[:cut]!r}'
    return None


def scenario_compressed():
    """the compressed replies with truncated, header-only, empty and garbage zlib bodies: the decoder must answer (with
    MessageDeserializationError) within a time bound - linear work, no loop that waits for an end of stream that never comes"""
    import signal
    import struct
    from aioslsk.network.connection import PeerConnection, PeerConnectionState, PeerConnectionType
    from aioslsk.protocol.primitives import FileData, DirectoryData, Attribute
    files = [FileData(1, f'track{i}.mp3', 1000 + i, 'mp3', [Attribute(0, 320)]) for i in range(50)]
    good = M.PeerSharesReply.Request(directories=[DirectoryData('@@abc\\d', files)]).serialize()
    code, body = good[4:8], good[8:]
    bodies = [body[:len(body) // 2], body[:2], b'', body[:-4], b'\x78\x9c', body + body[:10], b'\x00' * 40]

    class Timeout(BaseException):
        pass

    def on_alarm(signum, frm):
        raise Timeout()
    signal.signal(signal.SIGALRM, on_alarm)
    c = PeerConnection('h', 1, None, obfuscated=False, connection_type=PeerConnectionType.PEER)
    c.connection_state = PeerConnectionState.ESTABLISHED
    for b in bodies:
        data = struct.pack('<I', 4 + len(b)) + code + b
        signal.setitimer(signal.ITIMER_REAL, 5.0)
        try:
            c.decode_message_data(data)
        except MessageDeserializationError:
            pass
        except Timeout:
            return f'decoding a PeerSharesReply with a {len(b)}-byte broken zlib body ({b[:8]!r}...) does not terminate within 5 s'
        except Exception as e:      # noqa
            return f'decode_message_data lets {type(e).__name__} escape for a broken zlib body of {len(b)} bytes'
        finally:
            signal.setitimer(signal.ITIMER_REAL, 0)
    return None


def main():
    why = scenario_no_leak()
    if why:
        verdict(True, why, scenario='values of an earlier frame leak into a later one')
    why = scenario_compressed()
    if why:
        verdict(True, why, scenario='broken compressed bodies')
    why = scenario_decode()
    if why:
        verdict(True, why, scenario='decode_message_data')
    for kind in ('server', 'peer'):
        why = run(scenario_order(kind))
        if why:
            verdict(True, why, scenario='valid frames: large body, segmentation, slow handler')
    why = run(scenario_frames())
    if why:
        verdict(True, why, scenario='hostile frames between valid frames')
    hf = req.get('handler')
    if hf == 'SearchManager._on_wish_list_interval' or hf is None:
        f = M.WishlistInterval.Response(interval=600).serialize()
        why = run(scenario_frames([f, f]))
        if why:
            verdict(True, why, scenario='two WishlistInterval frames')
    verdict(False)


main()
