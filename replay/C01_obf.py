import os
from pyvc.report import write_replay
from replay.C01 import native


def replay(name, e, src_root):
    out = native({}, src_root, script='native_c01_obf.py')
    path = write_replay(name, e, note='native replay of the obfuscation functions against the pinned scheme',
                        extra={'request': {'kind': 'obf'}, 'native': out})
    return bool(out.get('confirmed')), path
