import os
from pyvc.report import write_replay
from replay.C01 import native


def replay(name, e, src_root):
    out = native({}, src_root, script='native_c01_obf.py')
    if not out.get('confirmed') and ('undecided[' in name or 'native-sweep' in name):
        out = native({}, src_root, script='native_c01_sweep.py')
    path = write_replay(name, e, note='native replay of the obfuscation functions against the pinned scheme',
                        extra={'request': {'kind': 'obf'}, 'native': out})
    return bool(out.get('confirmed')), path
