"""Replay driver for C09."""
import json
from pyvc.report import write_replay
from replay.C01 import native


def replay(name, e, src_root):
    req = {'model': e.get('model'), 'obligation': name}
    out = native(req, src_root, script='native_c09.py')
    path = write_replay(name, e, note='native replay: real strategies and chains over adversarial remote paths in a temp download directory; '
                        'two concurrent _prepare_download_path', extra={'request': req, 'native': out})
    return bool(out.get('confirmed')), path


def known_check(kf, name, e):
    return True


def rerun(path, src_root):
    doc = json.load(open(path))
    out = native(doc.get('request', {}), src_root, script='native_c09.py')
    print(json.dumps(out, indent=1))
    return 1 if out.get('confirmed') else 0
