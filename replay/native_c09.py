"""Native replay for C09: real naming strategies / chain_strategies / TransferManager._prepare_download_path in a temp directory."""
import asyncio
import itertools
import json
import os
import sys
import tempfile
sys.path.insert(0, os.path.dirname(os.path.abspath(__file__)))
from nativelib import make_client, verdict, run     # noqa: E402
from aioslsk.naming import DefaultNamingStrategy, KeepDirectoryStrategy, NumberDuplicateStrategy, chain_strategies    # noqa: E402
from aioslsk.utils import split_remote_path                          # noqa: E402
from aioslsk.transfer.model import Transfer, TransferDirection       # noqa: E402

req = json.load(open(sys.argv[1])) if len(sys.argv) > 1 else {}

COMPONENTS = ['..', '.', '', '@@alias', 'C:', 'dir', 'song.mp3', 'song (1).mp3', 'a b', 'éè', 'x' * 40, ' ..', '. ', ' ', 'Track [01].mp3', 'C++.ogg', 'Song (live).flac']
SEPS = ['\\', '/', '\\\\', '//', '\\/']


def remote_paths():
    m = req.get('model') or {}
    for k, v in m.items():
        if isinstance(v, str) and k.startswith(('piece', 'remote')):
            yield 'a\\' + v + '\\song.mp3'
            yield 'a\\b\\' + v
            yield v
    for n in (1, 2, 3):
        for comps in itertools.product(COMPONENTS, repeat=n):
            for sep in SEPS[:2] if n == 3 else SEPS:
                p = sep.join(comps)
                yield p
                if n < 3:
                    yield sep + p
                    yield p + sep


OBL = req.get('obligation') or ''
RACE = OBL == 'C09.prepare.unique'
LAST = OBL[len('C09.chain.not-exists[last='):-1] if OBL.startswith('C09.chain.not-exists[last=') else 'NumberDuplicateStrategy'


def check_choice(dl, strategies, rp, existing):
    try:
        d, name = chain_strategies(strategies, rp, dl)
    except IndexError:
        return None                 # a path without components is rejected
    except Exception as exc:
        return f'raised {exc!r}'
    full = os.path.join(d, name)
    norm = os.path.normpath(full)
    if name in ('', '.', '..') or '/' in name or '\\' in name:
        return f'file name {name!r}'
    if os.path.commonpath([dl, norm]) != dl or norm == dl or norm != full:
        return f'chosen path {full!r} is not strictly inside {dl!r}'
    if type(strategies[-1]).__name__ == LAST and os.path.lexists(full):
        return f'chosen path {full!r} exists already'
    return None


async def main():
    with tempfile.TemporaryDirectory() as tmp:
        tmp = os.path.realpath(tmp)
        dl = os.path.join(tmp, 'base', 'downloads')
        os.makedirs(dl)
        existing = ['song.mp3', 'song (1).mp3', 'song (3).mp3', 'a b', 'Track [01].mp3', 'Track [01] (1).mp3', 'C++.ogg', 'C++ (1).ogg', 'Song (live).flac', 'Song (live) (1).flac', 'dir']
        for n in existing[:-1]:
            open(os.path.join(dl, n), 'w').close()
        os.makedirs(os.path.join(dl, 'dir'))
        open(os.path.join(dl, 'dir', 'song.mp3'), 'w').close()
        open(os.path.join(tmp, 'base', 'song.mp3'), 'w').close()
        strat = [DefaultNamingStrategy(), KeepDirectoryStrategy(), NumberDuplicateStrategy()]
        chains = [list(p) for p in itertools.permutations(strat)] + [[strat[0]], [strat[0], strat[2]], [strat[1], strat[0]]]
        seen = set()
        for rp in ([] if RACE else remote_paths()):
            if rp in seen:
                continue
            seen.add(rp)
            got = split_remote_path(rp)
            bad = [c for c in got if c in ('', '.', '..') or '/' in c or '\\' in c]
            if bad:
                return True, f'split_remote_path({rp!r}) == {got!r}', {'remote_path': rp}
            for ch in chains:
                why = check_choice(dl, ch, rp, existing)
                if why:
                    return True, f'{[type(s).__name__ for s in ch]} on {rp!r}: {why}', {'remote_path': rp, 'chain': [type(s).__name__ for s in ch]}
        # numbering: every gap pattern of existing indices
        for mask in ([] if RACE else range(1 << 4)):
            d2 = os.path.join(tmp, f'n{mask}')
            os.makedirs(d2)
            open(os.path.join(d2, 'f.txt'), 'w').close()
            open(os.path.join(d2, 'f (1).txt.bak'), 'w').close()        # also matches the numbered pattern (the match is not anchored at the end)
            open(os.path.join(d2, 'f (2).txt~'), 'w').close()
            for i in range(4):
                if mask >> i & 1:
                    open(os.path.join(d2, f'f ({i + 1}).txt'), 'w').close()
            why = check_choice(d2, [strat[0], strat[2]], 'u\\f.txt', None)
            if why:
                return True, f'numbering with existing indices mask {mask:04b}: {why}', {'mask': mask}
        client = make_client(tmp)
        # the CONFIGURED download directory is read when a path is chosen: after a change of the setting the next download lies in the new one
        first_dl = os.path.join(tmp, 'first-downloads')
        os.makedirs(first_dl, exist_ok=True)
        client.settings.shares.download = first_dl
        client.shares.calculate_download_path('u\\warmup.mp3')
        client.settings.shares.download = dl
        d0, n0 = client.shares.calculate_download_path('u\\after-change.mp3')
        if os.path.normpath(d0) != os.path.normpath(dl):
            return True, f'shares.download changed from {first_dl!r} to {dl!r}: the next download is given {os.path.join(d0, n0)!r}, outside the configured directory', {'scenario': 'setting changed'}
        mgr = client.transfers
        if not RACE:
            # the installed chain through SharesManager.calculate_download_path and _prepare_download_path
            open(os.path.join(dl, 'caf\u00e9.mp3'), 'w').close()          # composed (NFC) name exists; the decomposed (NFD) one is offered
            for rp in ['a\\..\\song.mp3', 'a/../../x', '..', 'u\\dir\\song.mp3', 'song (1).mp3', '@@x\\..\\.\\f', 'u\\cafe\u0301.mp3', 'u\\caf\u00e9.mp3']:
                try:
                    d, name = client.shares.calculate_download_path(rp)
                except IndexError:
                    continue
                full = os.path.join(d, name)
                if os.path.dirname(os.path.normpath(full)) != dl or os.path.lexists(full) or name in ('', '.', '..'):
                    return True, f'calculate_download_path({rp!r}) == {(d, name)!r}', {'remote_path': rp}
                t = Transfer('alice', rp, TransferDirection.DOWNLOAD)
                await mgr._prepare_download_path(t)
                if t.local_path != full:
                    return True, f'_prepare_download_path chose {t.local_path!r}, calculate_download_path gives {full!r}', {'remote_path': rp}
                await mgr._prepare_download_path(t)
                if t.local_path != full:
                    return True, f'a download that already has a local path was moved to {t.local_path!r}', {'remote_path': rp}
                t.local_path = os.path.join(dl, 'resumed.part')
                await mgr._prepare_download_path(t)
                if t.local_path != os.path.join(dl, 'resumed.part'):
                    return True, f'a resumed download was moved from resumed.part to {t.local_path!r}', {'remote_path': rp}
            return False, '', None
        # two downloads of equally named files that start together
        t1 = Transfer('alice', 'music\\new.mp3', TransferDirection.DOWNLOAD)
        t2 = Transfer('bob', 'other\\new.mp3', TransferDirection.DOWNLOAD)
        await asyncio.gather(mgr._prepare_download_path(t1), mgr._prepare_download_path(t2))
        if t1.local_path == t2.local_path:
            return True, f'concurrent downloads alice:music\\new.mp3 and bob:other\\new.mp3 both got local_path {t1.local_path!r}', {'race': True}
    return False, '', None

c, what, inp = run(main(), timeout=120)
verdict(c, what, input=inp)
