"""Native replay for C12 on a real client's Network."""
import asyncio
import json
import os
import sys
import tempfile
sys.path.insert(0, os.path.dirname(os.path.abspath(__file__)))
from nativelib import make_client, verdict, run     # noqa: E402
from aioslsk.protocol import messages as M          # noqa: E402
from aioslsk.network.network import ExpectedResponse        # noqa: E402
from aioslsk.network.connection import ServerConnection, PeerConnection     # noqa: E402


async def main():
    with tempfile.TemporaryDirectory() as tmp:
        client = make_client(tmp)
        net = client.network
        sc = net.server_connection
        # 1. matches = conjunction over ALL fields, in any order, callables included
        msg = M.ConnectToPeer.Response(username='mallory', typ='P', ip='1.2.3.4', port=1, ticket=5, privileged=False)
        for fields in ({'ticket': lambda t: t > 0, 'username': 'alice'}, {'username': 'alice', 'ticket': lambda t: t > 0},
                       {'ticket': lambda t: t > 0, 'username': lambda u: u == 'alice'}):
            er = ExpectedResponse(ServerConnection, M.ConnectToPeer.Response, fields=fields)
            if er.matches(sc, msg):
                return True, f'matches() accepts a message from mallory for fields {list(fields)} expecting alice', {'fields': list(fields)}
            er.cancel()
        ok_msg = M.ConnectToPeer.Response(username='alice', typ='P', ip='1.2.3.4', port=1, ticket=5, privileged=False)
        er = ExpectedResponse(ServerConnection, M.ConnectToPeer.Response, fields={'ticket': lambda t: t > 0, 'username': 'alice'})
        if not er.matches(sc, ok_msg):
            return True, 'matches() rejects a message that satisfies every matcher', None
        er.cancel()
        # 2. a done / cancelled-but-not-yet-removed waiter must not break the delivery to the others
        for first in ('cancelled', 'completed'):
            f1 = net.create_server_response_future(M.ConnectToPeer.Response, fields={'username': 'alice'})
            f2 = net.create_server_response_future(M.ConnectToPeer.Response, fields={'username': 'alice'})
            if first == 'cancelled':
                f1.cancel()
            else:
                f1.set_result((sc, ok_msg))
            try:
                await net.on_message_received(ok_msg, sc)
            except Exception as e:       # noqa
                return True, f'on_message_received raised {type(e).__name__} with a {first} waiter still listed; second waiter done={f2.done()}', {'first': first}
            if not f2.done():
                return True, f'second pending waiter not completed ({first} first)', {'first': first}
            await asyncio.sleep(0)
            if net._expected_response_futures:
                return True, f'residue in the waiter list: {net._expected_response_futures}', None
        # 3. timeouts are TimeoutError
        for name, call in (('wait_for_server_message', lambda: net.wait_for_server_message(M.Ping.Response, timeout=0.01)),
                           ('wait_for_peer_message', lambda: net.wait_for_peer_message('bob', M.PeerPlaceInQueueReply.Request, timeout=0.01))):
            try:
                await call()
                return True, f'{name} returned without a message', None
            except TimeoutError:
                pass
            except BaseException as e:   # noqa
                return True, f'{name} raised {type(e).__name__} instead of TimeoutError on expiry', {'call': name}
            await asyncio.sleep(0)
            if net._expected_response_futures:
                return True, f'residue after timeout of {name}', None
        # 4. a cancelled caller leaves nothing behind
        for name, call in (('wait_for_server_message', lambda: net.wait_for_server_message(M.Ping.Response, timeout=5)),
                           ('wait_for_peer_message', lambda: net.wait_for_peer_message('bob', M.PeerPlaceInQueueReply.Request, timeout=5))):
            task = asyncio.ensure_future(call())
            await asyncio.sleep(0.01)
            task.cancel()
            try:
                await task
            except asyncio.CancelledError:
                pass
            except BaseException as e:   # noqa
                return True, f'cancelled {name} raised {type(e).__name__}', {'call': name}
            await asyncio.sleep(0)
            if net._expected_response_futures:
                return True, f'{len(net._expected_response_futures)} request(s) of a CANCELLED {name} still registered at quiescence', {'call': name}
        # 5. client.execute(): time-out and cancellation leave nothing behind, a late reply completes nobody
        try:
            from aioslsk.commands import GetUserStatusCommand
            client.network.send_server_messages = lambda *a, **k: asyncio.sleep(0)
            client.network.server_connection.send_message = lambda *a, **k: asyncio.sleep(0)
            net2 = client.network
            from aioslsk.session import Session
            client.session = Session(user=client.users.get_user_object('me'), ip_address='1.1.1.1', greeting='', client_version=1, minor_version=1)
            try:
                await client.execute(GetUserStatusCommand('bob'), response=True, timeout=0.02)
                return True, 'execute() returned without a reply', None
            except (TimeoutError, asyncio.TimeoutError):
                pass
            await asyncio.sleep(0)
            if net2._expected_response_futures:
                return True, f'{len(net2._expected_response_futures)} request(s) of a timed out execute() still registered', None
            task = asyncio.ensure_future(client.execute(GetUserStatusCommand('bob'), response=True, timeout=5))
            await asyncio.sleep(0.01)
            task.cancel()
            try:
                await task
            except asyncio.CancelledError:
                pass
            await asyncio.sleep(0)
            if net2._expected_response_futures:
                return True, f'{len(net2._expected_response_futures)} request(s) of a cancelled execute() still registered', None
            # 5b. execute() cancelled while command.send() is suspended: the expectation registered before the send is gone
            async def slow_send(*a, **k):
                await asyncio.sleep(5)
            keep = client.network.send_server_messages
            client.network.send_server_messages = slow_send
            task = asyncio.ensure_future(client.execute(GetUserStatusCommand('bob'), response=True, timeout=5))
            await asyncio.sleep(0.01)
            task.cancel()
            try:
                await task
            except asyncio.CancelledError:
                pass
            await asyncio.sleep(0)
            client.network.send_server_messages = keep
            if net2._expected_response_futures:
                return True, (f'{len(net2._expected_response_futures)} request(s) of an execute() that was cancelled while command.send() was suspended '
                              'are still registered'), {'scenario': 'execute cancelled inside send'}
            # 6. a command identified by a ticket is completed by the reply that carries the ticket it was SENT with
            from aioslsk.commands import PeerGetDirectoryContentCommand
            from aioslsk.protocol.messages import PeerDirectoryContentsReply
            from aioslsk.network.connection import PeerConnection
            sent = []

            async def send_peer_messages(username, *messages):
                sent.extend(messages)
            client.network.send_peer_messages = send_peer_messages
            task = asyncio.ensure_future(client.execute(PeerGetDirectoryContentCommand('bob', 'music'), response=True, timeout=0.5))
            await asyncio.sleep(0.01)
            if len(sent) == 1:
                peer = PeerConnection('1.2.3.4', 5, net2, username='bob')
                reply = PeerDirectoryContentsReply.Request(sent[0].ticket, 'music', [])
                await net2.on_message_received(reply, peer)
                try:
                    await task
                except (TimeoutError, asyncio.TimeoutError):
                    return True, (f'execute(PeerGetDirectoryContentCommand) timed out although the reply with the ticket of the request ({sent[0].ticket}) '
                                  'arrived from that peer'), {'command': 'PeerGetDirectoryContentCommand', 'ticket_sent': sent[0].ticket}
            else:
                task.cancel()
        except ImportError:
            pass
        return False, '', None


c, what, inp = run(main())
verdict(c, what, input=inp)
