"""Replay driver for C07."""
import json
from pyvc.report import write_replay
from replay.C01 import native


def replay(name, e, src_root):
    req = {'model': e.get('model'), 'obligation': name, 'seed': 7, 'rounds': 14}
    out = native(req, src_root, script='native_c07.py')
    if 'native-sweep' in name:
        # thorough tier: more seeds and longer histories
        for seed in range(1, 9):
            if out.get('confirmed'):
                break
            req = {'obligation': name, 'seed': seed, 'rounds': 24}
            out = native(req, src_root, script='native_c07.py')
    path = write_replay(name, e, note='native replay: differential check of the real SharesManager against a brute-force oracle over generated '
                        'trees, share histories and queries', extra={'request': req, 'native': out})
    return bool(out.get('confirmed')), path


def rerun(path, src_root):
    doc = json.load(open(path))
    out = native(doc.get('request', {}), src_root, script='native_c07.py')
    print(json.dumps(out, indent=1))
    return 1 if out.get('confirmed') else 0
