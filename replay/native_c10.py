"""Native replay for C10 / C11 on a real Network with real PeerConnection objects (sockets replaced by in-memory fakes)."""
import asyncio
import json
import os
import sys
import tempfile
from unittest.mock import AsyncMock, MagicMock, patch
sys.path.insert(0, os.path.dirname(os.path.abspath(__file__)))
from nativelib import make_client, wire_connection, FakeWriter, verdict, run     # noqa: E402
from aioslsk.network.connection import (PeerConnection, ListeningConnection, ConnectionState, CloseReason, PeerConnectionType)     # noqa: E402
from aioslsk.events import ConnectionStateChangedEvent        # noqa: E402
from aioslsk.exceptions import PeerConnectionError            # noqa: E402
from aioslsk.protocol import messages as M                    # noqa: E402

req = json.load(open(sys.argv[1])) if len(sys.argv) > 1 else {}
which = req.get('prop', 'C10')


def record(client):
    log = []

    def listener(e):
        log.append((e.connection, e.state.name))
    client.events.register(ConnectionStateChangedEvent, listener)
    return log, listener


async def c10():
    with tempfile.TemporaryDirectory() as tmp:
        client = make_client(tmp)
        log, keep = record(client)
        net = client.network
        # accept: an unknown init frame => the handler closes; nothing may be reported after CLOSED
        lc = ListeningConnection('0.0.0.0', 1, net)
        reader = asyncio.StreamReader()
        reader.feed_data(M.Ping.Request().serialize())          # not a peer init message
        await lc.accept(reader, FakeWriter())
        await asyncio.sleep(0)
        conn = log[0][0]
        seq = [s for c, s in log if c is conn]
        if 'CLOSED' in seq and seq.index('CLOSED') != len(seq) - 1:
            return True, f'accepted connection with an unexpected init message: reported states {seq} (a state after CLOSED); final state {conn.state.name}', {'scenario': 'accept'}
        # cancelled connect
        log.clear()
        c = PeerConnection('10.255.255.1', 1, net, username='bob')
        net.peer_connections.append(c)

        async def hang(*a, **k):
            await asyncio.sleep(3600)
        with patch('asyncio.open_connection', hang):
            t = asyncio.create_task(c.connect())
            await asyncio.sleep(0.01)
            t.cancel()
            try:
                await t
            except asyncio.CancelledError:
                pass
        await asyncio.sleep(0)
        if c.state != ConnectionState.CLOSED or c in net.peer_connections:
            return True, f'a cancelled connect() leaves the connection {c.state.name} and {"registered" if c in net.peer_connections else "unregistered"} for ever', {'scenario': 'cancelled-connect'}
        # disconnected while the TCP connect is in flight (what Network.disconnect() does to a registered CONNECTING connection on stop()),
        # then the connect completes
        log.clear()
        c = PeerConnection('10.255.255.1', 1, net, username='bob')
        net.peer_connections.append(c)
        late = FakeWriter()

        async def slow_open(*a, **k):
            await asyncio.sleep(0.05)
            return asyncio.StreamReader(), late
        with patch('asyncio.open_connection', slow_open):
            t = asyncio.ensure_future(c.connect())
            await asyncio.sleep(0.01)
            await c.disconnect(CloseReason.REQUESTED)
            try:
                await t
            except Exception:      # noqa
                pass
        await asyncio.sleep(0)
        seq = [s for cc, s in log if cc is c]
        if c.state != ConnectionState.CLOSED or ('CLOSED' in seq and seq.index('CLOSED') != len(seq) - 1) or not late.closed:
            if c._reader_task:
                c._reader_task.cancel()
            return True, (f'disconnect() while connect() is in flight, then the TCP connect completes: reported {seq}, the connection ends {c.state.name}, '
                          f'{"registered" if c in net.peer_connections else "unregistered"}, the socket opened afterwards is {"closed" if late.closed else "OPEN"}'), \
                {'scenario': 'disconnect-during-connect'}
        # concurrent disconnects report once
        log.clear()
        c = wire_connection(PeerConnection('h', 1, net, username='bob'))
        net.peer_connections.append(c)
        await asyncio.gather(c.disconnect(CloseReason.REQUESTED), c.disconnect(CloseReason.EOF), c.disconnect(CloseReason.TIMEOUT))
        seq = [s for cc, s in log if cc is c]
        if seq != ['CLOSING', 'CLOSED'] or c in net.peer_connections:
            return True, f'concurrent disconnect calls reported {seq}', {'scenario': 'disconnect'}
    return False, '', None


async def c11():
    with tempfile.TemporaryDirectory() as tmp:
        # indirect attempt: waiters after cancellation / send failure
        for scenario in ('cancel', 'send-fails'):
            client = make_client(tmp)
            net = client.network
            sc = net.server_connection
            if scenario == 'send-fails':
                async def boom(m):
                    from aioslsk.exceptions import ConnectionWriteError
                    raise ConnectionWriteError('x')
                sc.send_message = boom
            else:
                async def ok(m):
                    pass
                sc.send_message = ok
            t = asyncio.create_task(net._make_indirect_connection(77, 'bob', 'P'))
            await asyncio.sleep(0.01)
            if scenario == 'cancel':
                t.cancel()
            try:
                await t
            except BaseException:
                pass
            await asyncio.sleep(0)
            await asyncio.sleep(0)
            if net._expected_connection_futures or net._expected_response_futures:
                return True, (f'indirect attempt ended ({scenario}) but waiters remain: tickets {list(net._expected_connection_futures)}, '
                              f'{len(net._expected_response_futures)} response waiter(s)'), {'scenario': 'indirect-' + scenario}
        # race: cancelling the request cancels both sub-attempts
        client = make_client(tmp)
        net = client.network

        async def hang(*a, **k):
            await asyncio.sleep(3600)
        net._make_direct_connection = hang
        net._make_indirect_connection = hang
        t = asyncio.create_task(net._create_peer_connection_race(77, 'bob', 'P'))
        await asyncio.sleep(0.01)
        t.cancel()
        try:
            await t
        except BaseException:
            pass
        await asyncio.sleep(0.01)
        left = [x.get_name() for x in asyncio.all_tasks() if 'connect-bob' in x.get_name() and not x.done()]
        for x in asyncio.all_tasks():
            if 'connect-bob' in x.get_name():
                x.cancel()
        if left:
            return True, f'the request was cancelled but its sub-attempts keep running: {left}', {'scenario': 'race-cancel'}
        # direct attempt cancelled while sending PeerInit: the socket must not stay open and registered
        client = make_client(tmp)
        net = client.network

        async def fake_connect(self, timeout=30):
            wire_connection(self)

        async def slow_send(self, message):
            await asyncio.sleep(3600)
        with patch.object(PeerConnection, 'connect', fake_connect), patch.object(PeerConnection, 'send_message', slow_send):
            t = asyncio.create_task(net._make_direct_connection(77, 'bob', 'P', ip='1.2.3.4', port=5))
            await asyncio.sleep(0.01)
            t.cancel()
            try:
                await t
            except BaseException:
                pass
        await asyncio.sleep(0)
        if net.peer_connections:
            c = net.peer_connections[0]
            return True, f'a direct attempt cancelled while sending PeerInit leaves its connection {c.state.name} and registered', {'scenario': 'direct-cancel'}
    return False, '', None

c, what, inp = run(c10() if which == 'C10' else c11(), timeout=60)
verdict(c, what, input=inp)
