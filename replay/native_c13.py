"""Native replay for C13 and C14 on a real client's DistributedNetwork / SearchManager with recording connections."""
import asyncio
import json
import os
import sys
import tempfile
from unittest.mock import AsyncMock, MagicMock
sys.path.insert(0, os.path.dirname(os.path.abspath(__file__)))
from nativelib import make_client, verdict, run     # noqa: E402
from aioslsk.protocol import messages as M          # noqa: E402
from aioslsk.network.connection import PeerConnection, PeerConnectionType, ConnectionState, CloseReason   # noqa: E402
from aioslsk.distributed import DistributedPeer     # noqa: E402
from aioslsk.session import Session                 # noqa: E402
from aioslsk.events import ConnectionStateChangedEvent     # noqa: E402

req = json.load(open(sys.argv[1])) if len(sys.argv) > 1 else {}
which = req.get('prop', 'C13')


def mk_conn(client, name, log):
    c = PeerConnection('1.2.3.4', 1, client.network, username=name, connection_type=PeerConnectionType.DISTRIBUTED)
    c.queue_messages = lambda *msgs: log.setdefault(name, []).extend(msgs) or []

    async def send_message(m):
        log.setdefault(name, []).append(m)

    async def disconnect(reason=None):
        log.setdefault('disconnected', []).append(name)
    c.send_message = send_message
    c.disconnect = disconnect
    return c


def setup(tmp, n_children=1, parent=True):
    client = make_client(tmp, 'me')
    dn = client.distributed_network
    me = client.users.get_user_object('me')
    sess = Session(user=me, ip_address='1.1.1.1', greeting='', client_version=1, minor_version=1)
    dn._session = sess
    client.searches._session = sess
    log = {}
    server = []

    async def send_server(*msgs):
        server.extend(msgs)
    client.network.send_server_messages = send_server
    peers = {}
    if parent:
        p = DistributedPeer('parent', mk_conn(client, 'parent', log), branch_level=1, branch_root='root')
        dn.parent = p
        dn.distributed_peers.append(p)
        peers['parent'] = p
    for i in range(n_children):
        c = DistributedPeer(f'child{i}', mk_conn(client, f'child{i}', log))
        dn.children.append(c)
        dn.distributed_peers.append(c)
        peers[f'child{i}'] = c
    return client, dn, log, server, peers


def adv(dn):
    if dn.parent is None or dn.parent.branch_root == 'me':
        return 'me', 0
    return dn.parent.branch_root, dn.parent.branch_level + 1


def last(server, cls):
    xs = [m for m in server if isinstance(m, cls)]
    return xs[-1] if xs else None


async def c13():
    with tempfile.TemporaryDirectory() as tmp:
        # a child announcing level 0 must not become the parent
        client, dn, log, server, peers = setup(tmp, n_children=1, parent=False)
        await dn._on_distributed_branch_level(M.DistributedBranchLevel.Request(0), peers['child0'].connection)
        if dn.parent is not None and dn.parent in dn.children:
            return True, f'an accepted child that announces branch level 0 became the parent while still among the children ({dn.parent.username})', {'scenario': 'child-becomes-parent'}
        # the parent announces a new level / root: server and children are told the derived position
        for what in ('level', 'root'):
            client, dn, log, server, peers = setup(tmp, n_children=1, parent=True)
            if what == 'level':
                await dn._on_distributed_branch_level(M.DistributedBranchLevel.Request(3), peers['parent'].connection)
            else:
                await dn._on_distributed_branch_root(M.DistributedBranchRoot.Request('newroot'), peers['parent'].connection)
            root, level = adv(dn)
            lv, rt = last(server, M.BranchLevel.Request), last(server, M.BranchRoot.Request)
            if lv is None or rt is None or lv.level != level or rt.username != root:
                return True, (f'parent announced a new {what}: derived position is level {level} root {root}, the server was told '
                              f'{(lv.level if lv else None, rt.username if rt else None)}'), {'scenario': f'parent-new-{what}'}
            cl = [m for m in log.get('child0', []) if isinstance(m, M.DistributedBranchLevel.Request)]
            if not cl or cl[-1].level != level:
                return True, f'child not told the new level after the parent announced a new {what}', {'scenario': f'parent-new-{what}'}
        # parent lost
        client, dn, log, server, peers = setup(tmp, n_children=1, parent=True)
        conn = peers['parent'].connection
        await dn._on_state_changed(ConnectionStateChangedEvent(conn, ConnectionState.CLOSED, CloseReason.EOF))
        lv, rt, tg = last(server, M.BranchLevel.Request), last(server, M.BranchRoot.Request), last(server, M.ToggleParentSearch.Request)
        if dn.parent is not None or lv is None or lv.level != 0 or rt.username != 'me' or not tg or not tg.enable:
            return True, 'after losing the parent the server was not told level 0 / own name / search for parents', {'scenario': 'parent-lost'}
    return False, '', None


async def c14():
    with tempfile.TemporaryDirectory() as tmp:
        for kind in ('server', 'distributed', 'legacy'):
            for user in ('asker', 'me'):
                client, dn, log, server, peers = setup(tmp, n_children=2, parent=True)
                if kind == 'server':
                    m, src = M.ServerSearchRequest.Response(3, 0, user, 77, 'query'), client.network.server_connection
                    await dn._on_server_search_request(m, src)
                elif kind == 'distributed':
                    m, src = M.DistributedSearchRequest.Request(0, user, 77, 'query'), peers['parent'].connection
                    await dn._on_distributed_search_request(m, src)
                else:
                    m, src = M.DistributedServerSearchRequest.Request(3, 0, user, 77, 'query'), peers['parent'].connection
                    await dn._on_distributed_server_search_request(m, src)
                got = {k: v for k, v in log.items() if k != 'disconnected'}
                if user == 'me':
                    if got:
                        return True, f'{kind} carrier: a search that originates from the logged-in user was forwarded to {sorted(got)}', {'carrier': kind}
                    continue
                if sorted(got) != ['child0', 'child1'] or any(len(v) != 1 for v in got.values()):
                    return True, f'{kind} carrier: forwarded to {[(k, len(v)) for k, v in got.items()]} instead of once to each child', {'carrier': kind}
                for v in got.values():
                    f = v[0]
                    if (f.username, f.ticket, f.query) != ('asker', 77, 'query'):
                        return True, f'{kind} carrier: forwarded request differs: {f}', {'carrier': kind}
        # through the real event bus (both managers listen): a mixed-case, double-spaced query reaches the children verbatim,
        # and the asker gets one reply / one SearchRequestReceivedEvent per request
        from aioslsk.events import MessageReceivedEvent, SearchRequestReceivedEvent
        from aioslsk.shares.model import SharedDirectory, SharedItem
        for kind in ('server', 'distributed', 'legacy'):
            for matches in (True, False):
                client, dn, log, server, peers = setup(tmp, n_children=2, parent=True)
                sd = SharedDirectory('music', os.path.join(tmp, 'music'), 'alias')
                item = SharedItem(sd, '', 'Great  Song.mp3', 0.0)
                os.makedirs(sd.absolute_path, exist_ok=True)
                with open(item.get_absolute_path(), 'wb') as fh:
                    fh.write(b'x' * 10)
                queries = []

                def query(q, username=None, excluded_search_phrases=None, _m=matches, _i=item, _q=queries):
                    _q.append(q)
                    return ([_i] if _m else []), []
                client.searches._shares_manager.query = query
                replies, events = [], []

                async def send_peer(username, *msgs, _r=replies):
                    _r.extend((username, m) for m in msgs)
                client.network.send_peer_messages = send_peer

                def on_received(e, _e=events):      # the bus keeps weak references: hold the listener in a local
                    _e.append(e)
                client.events.register(SearchRequestReceivedEvent, on_received)
                q = 'Great  Song'
                if kind == 'server':
                    m, src = M.ServerSearchRequest.Response(3, 0, 'asker', 78, q), client.network.server_connection
                elif kind == 'distributed':
                    m, src = M.DistributedSearchRequest.Request(0, 'asker', 78, q), peers['parent'].connection
                else:
                    m, src = M.DistributedServerSearchRequest.Request(3, 0, 'asker', 78, q), peers['parent'].connection
                await client.events.emit(MessageReceivedEvent(m, src))
                for _ in range(5):
                    await asyncio.sleep(0)
                inp = {'carrier': kind, 'via': 'event bus', 'matches': matches}
                got = {k: v for k, v in log.items() if k != 'disconnected'}
                if sorted(got) != ['child0', 'child1'] or any(len(v) != 1 for v in got.values()):
                    return True, f'{kind} carrier over the event bus: forwarded to {[(k, len(v)) for k, v in got.items()]} instead of once to each child', inp
                for v in got.values():
                    f = v[0]
                    if (f.username, f.ticket, f.query) != ('asker', 78, q):
                        return True, f'{kind} carrier over the event bus: the forwarded request differs from the received one ({q!r}): {f}', inp
                rep = [(u, r.username, r.ticket, len(r.results)) for u, r in replies if isinstance(r, M.PeerSearchReply.Request)]
                want = [('asker', 'me', 78, 1)] if matches else []
                if rep != want:
                    return True, f'{kind} carrier over the event bus: search replies (to, from, ticket, files) = {rep}, expected {want}', inp
                if len(events) != 1 or len(queries) != 1:
                    return True, f'{kind} carrier over the event bus: one request was answered {len(queries)} times ({len(events)} SearchRequestReceivedEvents)', inp
        # answering own searches
        client, dn, log, server, peers = setup(tmp, n_children=0, parent=True)
        calls = []

        async def fake(ticket, username, query):
            calls.append((ticket, username, query))
        client.searches._query_shares_and_reply = fake
        await client.searches._on_distributed_search_request(M.DistributedSearchRequest.Request(0, 'me', 77, 'query'), peers['parent'].connection)
        await client.searches._on_distributed_server_search_request(M.DistributedServerSearchRequest.Request(3, 0, 'me', 77, 'query'), peers['parent'].connection)
        if calls:
            return True, f'own searches arriving over the distributed network are answered: {calls}', {'scenario': 'own-answer'}
    return False, '', None

c, what, inp = run(c13() if which == 'C13' else c14())
verdict(c, what, input=inp)
