"""Native replay for C16 on a real client."""
import asyncio
import os
import sys
import tempfile
from unittest.mock import AsyncMock, MagicMock, patch
sys.path.insert(0, os.path.dirname(os.path.abspath(__file__)))
from nativelib import make_client, wire_connection, verdict, run     # noqa: E402
from aioslsk.protocol import messages as M          # noqa: E402
from aioslsk.events import SessionInitializedEvent, ConnectionStateChangedEvent      # noqa: E402
from aioslsk.network.connection import ConnectionState, CloseReason, PeerConnectionType       # noqa: E402
from aioslsk.session import Session                 # noqa: E402


async def main():
    with tempfile.TemporaryDirectory() as tmp:
        # what the server is told after login, as a function of the room settings
        for auto in (True, False):
            client = make_client(tmp)
            client.settings.rooms.auto_join = auto
            client.settings.rooms.favorites = {'jazz'}
            sent = []

            async def send(*msgs):
                sent.extend(msgs)
            client.network.send_server_messages = send
            await client.rooms._on_session_initialized(None)
            joins = [m.room for m in sent if isinstance(m, M.JoinRoom.Request)]
            if joins != (['jazz'] if auto else []):
                return True, f'auto_join={auto}: JoinRoom sent for {joins} (favourites jazz): favourite rooms must be rejoined iff automatic rejoin is enabled', {'auto_join': auto}
        # every login tells the server the same things: first session, loss, second session on the SAME client object
        from aioslsk.events import SessionDestroyedEvent
        client = make_client(tmp)
        client.settings.rooms.favorites = {'jazz'}
        client.settings.users.friends = {'bob'}
        os.makedirs(os.path.join(tmp, 'sh'), exist_ok=True)
        open(os.path.join(tmp, 'sh', 'a.mp3'), 'w').close()
        sd = client.shares.add_shared_directory(os.path.join(tmp, 'sh'))
        await client.shares.scan_directory_files(sd)
        told = []

        async def record(*msgs):
            told.extend(type(m).__qualname__ for m in msgs)
        client.network.send_server_messages = record
        client.network.server_connection.send_message = AsyncMock(side_effect=lambda m: told.append(type(m).__qualname__))
        client.network.server_connection.queue_messages = lambda *msgs: told.extend(type(m).__qualname__ for m in msgs) or []
        sess = Session(user=client.users.get_user_object('me'), ip_address='1.1.1.1', greeting='', client_version=1, minor_version=1)
        per_login = []
        for n in (1, 2):
            told.clear()
            client.session = sess
            await client.events.emit(SessionInitializedEvent(sess, raw_message=None))
            await asyncio.sleep(0.05)
            per_login.append(sorted(told))
            client.session = None
            await client.events.emit(ConnectionStateChangedEvent(client.network.server_connection, ConnectionState.CLOSED, CloseReason.EOF))
            await client.events.emit(SessionDestroyedEvent(sess))
            await asyncio.sleep(0.05)
        if per_login[0] != per_login[1]:
            missing = [m for m in per_login[0] if m not in per_login[1]]
            extra = [m for m in per_login[1] if m not in per_login[0]]
            return True, f'the second login (after a session loss) does not tell the server what the first one did: missing {missing}, extra {extra}', {'first': per_login[0]}
        for t in asyncio.all_tasks():
            if t is not asyncio.current_task():
                t.cancel()
        await asyncio.sleep(0)
        # interests: an item may be liked AND hated in the settings; the server is told both
        client = make_client(tmp)
        told = []

        async def record(*msgs):
            told.extend(msgs)
        client.network.send_server_messages = record
        client.settings.interests.liked = {'jazz', 'metal'}
        client.settings.interests.hated = {'metal', 'pop'}
        await client.interests.advertise_interests()
        liked = sorted(m.interest for m in told if isinstance(m, M.AddInterest.Request))
        hated = sorted(m.hated_interest for m in told if isinstance(m, M.AddHatedInterest.Request))
        if liked != ['jazz', 'metal'] or hated != ['metal', 'pop']:
            return True, (f'settings liked={{jazz, metal}} hated={{metal, pop}}: the server was told liked {liked}, hated {hated}'), {'scenario': 'interests'}
        # a task cancelled while it closes a connection (the watchdog cancelling itself at CLOSING) ends cancelled, with the connection CLOSED
        client = make_client(tmp)
        sc = wire_connection(client.network.server_connection)

        async def wait_closed():
            await asyncio.sleep(3600)
        sc._writer.wait_closed = wait_closed

        async def closer():
            await sc.disconnect(CloseReason.EOF)
            await asyncio.sleep(3600)        # what the cancelled task would go on doing
        task = asyncio.ensure_future(closer())
        await asyncio.sleep(0.01)
        task.cancel()
        await asyncio.sleep(0.05)
        survived = not task.done()
        task.cancel()
        if survived or sc.state != ConnectionState.CLOSED:
            return True, (f'a task cancelled inside disconnect() {"keeps running" if survived else "stopped"} (connection {sc.state.name}): '
                          'the cancelled reconnect watchdog goes on reconnecting, also after stop()'), {'scenario': 'cancel-inside-disconnect'}
        # stop() is final: unrequested loss with auto-reconnect, then stop()
        client = make_client(tmp, reconnect=True)
        net = client.network
        sc = wire_connection(net.server_connection)
        await net.on_state_changed(ConnectionState.CONNECTED, sc)            # starts the watchdog
        await sc.disconnect(CloseReason.READ_ERROR)                          # unrequested loss
        # a pending potential-parent connect and a search request with a timeout
        client.session = Session(user=client.users.get_user_object('me'), ip_address='', greeting='', client_version=1, minor_version=1)
        client.distributed_network._session = client.session
        client.searches._session = client.session

        async def hang(*a, **k):
            await asyncio.sleep(3600)
        net.create_peer_connection = hang
        net.send_server_messages = AsyncMock()
        from aioslsk.protocol.primitives import PotentialParent
        # the server repeats the message while a parent is searched: two batches of pending connects
        await client.distributed_network._on_potential_parents(M.PotentialParents.Response(entries=[PotentialParent('pp', '1.2.3.4', 5)]), sc)
        await client.distributed_network._on_potential_parents(M.PotentialParents.Response(entries=[PotentialParent('pq', '1.2.3.5', 6)]), sc)
        client.settings.searches.send.request_timeout = 60
        await client.searches.search('query')
        before = {t for t in asyncio.all_tasks()}
        await client.stop()
        await asyncio.sleep(0.05)
        me = asyncio.current_task()
        left = sorted(t.get_name() + ':' + getattr(t.get_coro(), '__qualname__', '?') for t in asyncio.all_tasks() if t is not me and not t.done())
        for t in asyncio.all_tasks():
            if t is not me:
                t.cancel()
        if left:
            return True, f'tasks started by the library still pending after stop() returned: {left}', {'scenario': 'loss(READ_ERROR) with auto-reconnect, two PotentialParents messages, search with timeout, stop()'}
    return False, '', None

c, what, inp = run(main(), timeout=60)
verdict(c, what, input=inp)
