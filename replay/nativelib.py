"""Helpers for native replays (run under /venv/bin/python with PYTHONPATH=<src_root>)."""
import asyncio
import json
import os
import sys
import tempfile
from unittest.mock import MagicMock, AsyncMock


def make_settings(tmp, username='me', **over):
    from aioslsk.settings import (CredentialsSettings, ListeningSettings, NetworkSettings, ReconnectSettings,
                                  ServerSettings, Settings, SharesSettings, UpnpSettings)
    dl = os.path.join(tmp, 'downloads')
    os.makedirs(dl, exist_ok=True)
    return Settings(
        credentials=CredentialsSettings(username=username, password='pw'),
        network=NetworkSettings(
            server=ServerSettings(hostname='127.0.0.1', port=1, reconnect=ReconnectSettings(auto=over.get('reconnect', False))),
            listening=ListeningSettings(port=60000, obfuscated_port=60001),
            upnp=UpnpSettings(enabled=False)),
        shares=SharesSettings(scan_on_start=False, download=dl, directories=[]))


def make_client(tmp, username='me', **over):
    from aioslsk.client import SoulSeekClient
    return SoulSeekClient(make_settings(tmp, username, **over))


class FakeWriter:
    def __init__(self):
        self.data = bytearray()
        self.closed = False

    def write(self, b):
        self.data += b

    async def drain(self):
        pass

    def close(self):
        self.closed = True

    def is_closing(self):
        return self.closed

    async def wait_closed(self):
        pass

    def get_extra_info(self, name):
        return ('127.0.0.1', 1234)


def wire_connection(conn):
    """Give a real DataConnection an in-memory reader/writer and mark it CONNECTED (no sockets)."""
    from aioslsk.network.connection import ConnectionState
    conn._reader = asyncio.StreamReader()
    conn._writer = FakeWriter()
    conn.state = ConnectionState.CONNECTED
    conn._is_closing = False
    return conn


def verdict(confirmed, what='', **kw):
    print(json.dumps(dict(confirmed=confirmed, what=what, **kw), default=repr))
    sys.exit(0)


def run(coro, timeout=20):
    async def main():
        return await asyncio.wait_for(coro, timeout)
    return asyncio.run(main())
