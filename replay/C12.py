"""Replay driver for C12."""
import json
from pyvc.report import write_replay
from replay.C01 import native


def replay(name, e, src_root):
    if 'delivery' in name:
        # obligations about the order of delivery are the reader-loop contract of C02: its native battery has the ordering scenarios
        out = native({}, src_root, script='native_c02.py')
        path = write_replay(name, e, note='native replay: reader loop of a real connection (battery of C02)', extra={'request': {}, 'native': out})
        return bool(out.get('confirmed')), path
    out = native({}, src_root, script='native_c12.py')
    path = write_replay(name, e, note='native replay on a real client Network', extra={'request': {}, 'native': out})
    return bool(out.get('confirmed')), path


def rerun(path, src_root):
    out = native({}, src_root, script='native_c12.py')
    print(json.dumps(out, indent=1))
    return 1 if out.get('confirmed') else 0
