"""Native replay for C19: feeds notification sequences to a real client's RoomManager / UserManager and compares the
replica with a reference fold written from the property statement (join adds, leave removes, grant adds, revoke
removes, lists replace)."""
import asyncio
import itertools
import os
import sys
import tempfile
sys.path.insert(0, os.path.dirname(os.path.abspath(__file__)))
from nativelib import make_client, verdict, run     # noqa: E402
from aioslsk.protocol import messages as M          # noqa: E402
from aioslsk.protocol.primitives import UserStats   # noqa: E402
from aioslsk.session import Session                 # noqa: E402

ME = 'me'
STATS = UserStats(1, 2, 3, 4)


def ref_apply(state, msg):
    r = state.setdefault(getattr(msg, 'room', None), dict(users=set(), members=set(), operators=set(), joined=False, tickers={}))
    n = type(msg).__qualname__.split('.')[0]
    u = getattr(msg, 'username', None)
    if n == 'UserJoinedRoom': r['users'].add(u)
    elif n == 'UserLeftRoom': r['users'].discard(u)
    elif n == 'LeaveRoom': r['users'] = set(); r['joined'] = False
    elif n == 'JoinRoom': r['users'] = set(msg.users); r['joined'] = True; r['operators'] = set(msg.operators or [])      # lists replace
    elif n == 'PrivateRoomGrantMembership': r['members'].add(u)
    elif n == 'PrivateRoomMembershipGranted': r['members'].add(ME)
    elif n == 'PrivateRoomRevokeMembership': r['members'].discard(u); r['operators'].discard(u)
    elif n == 'PrivateRoomMembershipRevoked': r['members'].discard(ME); r['operators'].discard(ME)
    elif n == 'PrivateRoomMembers': r['members'] = set(msg.usernames)
    elif n == 'PrivateRoomOperators': r['operators'] = set(msg.usernames)
    elif n == 'PrivateRoomOperatorGranted': r['operators'].add(ME)
    elif n == 'PrivateRoomOperatorRevoked': r['operators'].discard(ME)
    elif n == 'PrivateRoomGrantOperator': r['operators'].add(u)
    elif n == 'PrivateRoomRevokeOperator': r['operators'].discard(u)
    elif n == 'RoomTickerAdded': r['tickers'][u] = msg.ticker
    elif n == 'RoomTickerRemoved': r['tickers'].pop(u, None)


def alphabet(room):
    return [
        M.UserJoinedRoom.Response(room, 'bob', 2, STATS, 1, 'NL'), M.UserLeftRoom.Response(room, 'bob'),
        M.LeaveRoom.Response(room), M.PrivateRoomGrantMembership.Response(room, 'bob'), M.PrivateRoomMembershipGranted.Response(room),
        M.PrivateRoomRevokeMembership.Response(room, 'bob'), M.PrivateRoomMembershipRevoked.Response(room),
        M.PrivateRoomMembers.Response(room, ['bob', 'eve']), M.PrivateRoomOperators.Response(room, ['eve']),
        M.PrivateRoomOperatorGranted.Response(room), M.PrivateRoomOperatorRevoked.Response(room),
        M.PrivateRoomGrantOperator.Response(room, 'bob'), M.PrivateRoomRevokeOperator.Response(room, 'bob'),
        M.RoomTickerAdded.Response(room, 'bob', 'hi'), M.RoomTickerRemoved.Response(room, 'bob'),
        M.RoomTickerAdded.Response(room, 'bob', 'a newer ticker'),
        M.JoinRoom.Response(room, [ME, 'eve'], [2, 2], [STATS, STATS], [1, 1], ['NL', 'NL']),
    ]


async def main():
    with tempfile.TemporaryDirectory() as tmp:
        msgs = alphabet('r1')
        for seq in itertools.chain(([m] for m in msgs), itertools.permutations(msgs, 2)):
            client = make_client(tmp, ME)
            me = client.users.get_user_object(ME)
            client.users._session = Session(user=me, ip_address='1.1.1.1', greeting='', client_version=1, minor_version=1) \
                if hasattr(client.users, '_session') else None
            client.session = client.users._session
            ref = {}
            for m in seq:
                handler = client.rooms._MESSAGE_MAP[type(m)]
                await handler(m, client.network.server_connection)
                ref_apply(ref, m)
            room = client.rooms.rooms['r1']
            got = dict(users={u.name for u in room.users}, members=set(room.members), operators=set(room.operators), tickers=dict(room.tickers))
            want = {k: ref['r1'][k] for k in got}
            if got != want:
                return True, f'after {[type(m).__qualname__ for m in seq]} the room is {got}, the fold of the notifications is {want}', \
                    {'sequence': [repr(m) for m in seq]}
        # messages of blocked users are not reported, for every flag combination that contains the kind's bit
        from aioslsk.user.model import BlockingFlag
        from aioslsk.events import RoomMessageEvent, PublicMessageEvent, PrivateMessageEvent
        for flags in (BlockingFlag.NONE, BlockingFlag.ROOM_MESSAGES, BlockingFlag.PRIVATE_MESSAGES, BlockingFlag.ROOM_MESSAGES | BlockingFlag.SEARCHES,
                      BlockingFlag.PRIVATE_MESSAGES | BlockingFlag.UPLOADS, BlockingFlag(63)):
            client = make_client(tmp, ME)
            me = client.users.get_user_object(ME)
            client.users._session = Session(user=me, ip_address='1.1.1.1', greeting='', client_version=1, minor_version=1)
            client.session = client.users._session
            client.settings.users.blocked = {'bob': flags} if flags else {}
            seen = []

            async def listener(ev):
                seen.append(type(ev).__name__)
            for evc in (RoomMessageEvent, PublicMessageEvent, PrivateMessageEvent):
                client.events.register(evc, listener)
            conn = client.network.server_connection
            await client.rooms._MESSAGE_MAP[M.RoomChatMessage.Response](M.RoomChatMessage.Response('r1', 'bob', 'hello'), conn)
            await client.rooms._MESSAGE_MAP[M.PublicChatMessage.Response](M.PublicChatMessage.Response('r1', 'bob', 'hello'), conn)
            try:
                client.network.send_server_messages = lambda *a, **k: asyncio.sleep(0)
                await client.users._MESSAGE_MAP[M.PrivateChatMessage.Response](M.PrivateChatMessage.Response(1, 1, 'bob', 'hello', False), conn)
            except Exception:
                pass
            want = []
            if not flags & BlockingFlag.ROOM_MESSAGES:
                want += ['RoomMessageEvent', 'PublicMessageEvent']
            if not flags & BlockingFlag.PRIVATE_MESSAGES:
                want += ['PrivateMessageEvent']
            if sorted(seen) != sorted(want):
                return True, f'user bob blocked with {flags!r}: reported {sorted(seen)}, expected {sorted(want)}', {'flags': int(flags)}
        # lists replace: RoomList and PrivilegedUsers
        client = make_client(tmp, ME)
        me = client.users.get_user_object(ME)
        client.users._session = Session(user=me, ip_address='1.1.1.1', greeting='', client_version=1, minor_version=1)
        client.session = client.users._session
        conn = client.network.server_connection
        rl = client.rooms._MESSAGE_MAP[M.RoomList.Response]
        await client.rooms._MESSAGE_MAP[M.JoinRoom.Response](M.JoinRoom.Response('priv', ['bob'], [2], [STATS], [1], ['NL'], owner='bob', operators=['eve']), conn)
        await rl(M.RoomList.Response(rooms=['pub'], rooms_user_count=[1], rooms_private_owned=['mine'], rooms_private_owned_user_count=[1],
                                     rooms_private=['priv'], rooms_private_user_count=[2], rooms_private_operated=['priv']), conn)
        r = client.rooms.rooms
        if r['priv'].owner != 'bob' or r['mine'].owner != ME or ME not in r['priv'].members or ME not in r['priv'].operators or r['pub'].private:
            return True, f"after RoomList: priv.owner={r['priv'].owner!r} mine.owner={r['mine'].owner!r} members={r['priv'].members} operators={r['priv'].operators}", None
        await rl(M.RoomList.Response(rooms=['pub'], rooms_user_count=[1], rooms_private_owned=[], rooms_private_owned_user_count=[],
                                     rooms_private=['priv', 'mine'], rooms_private_user_count=[2, 1], rooms_private_operated=[]), conn)
        if r['priv'].owner != 'bob' or r['mine'].owner is not None or ME in r['priv'].operators:
            return True, f"after the second RoomList: priv.owner={r['priv'].owner!r} (bob expected) mine.owner={r['mine'].owner!r} (None expected) operators={r['priv'].operators}", None
        pu = client.users._MESSAGE_MAP[M.PrivilegedUsers.Response]
        bob, eve = client.users.get_user_object('bob'), client.users.get_user_object('eve')
        await pu(M.PrivilegedUsers.Response(['bob', 'eve']), conn)
        await pu(M.PrivilegedUsers.Response(['eve']), conn)
        if bob.privileged or not eve.privileged:
            return True, f'after PrivilegedUsers([bob, eve]) then ([eve]): bob.privileged={bob.privileged}, eve.privileged={eve.privileged}', None
        # ONE user object per name: what a status / statistics notification says about a user is seen through every room the user is in
        # and through get_user_object - also by whoever took the object earlier
        client = make_client(tmp, ME)
        conn = client.network.server_connection
        held = client.users.get_user_object('bob')
        await client.rooms._MESSAGE_MAP[M.UserJoinedRoom.Response](M.UserJoinedRoom.Response('pub', 'bob', 2, STATS, 1, 'NL'), conn)
        await client.users._MESSAGE_MAP[M.GetUserStatus.Response](M.GetUserStatus.Response('bob', 1, True), conn)
        await client.users._MESSAGE_MAP[M.GetUserStats.Response](M.GetUserStats.Response('bob', UserStats(9, 8, 7, 6)), conn)
        views = {'held before': held, 'get_user_object': client.users.get_user_object('bob'),
                 'room.users': next((u for u in client.rooms.rooms['pub'].users if u.name == 'bob'), None)}
        bad = {k: (None if v is None else (v.status.name, v.privileged, v.avg_speed)) for k, v in views.items()
               if v is None or (v.status.value, v.privileged, v.avg_speed) != (1, True, 9)}
        if bad:
            return True, f'after UserJoinedRoom(pub, bob), GetUserStatus(bob, away, privileged), GetUserStats(bob, speed 9): stale views (status, privileged, speed) {bad}', {'scenario': 'one user object'}
    return False, '', None

c, what, inp = run(main(), timeout=120)
verdict(c, what, input=inp)
