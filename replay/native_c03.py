"""Native replay for C03: two overlapping operations on a REAL Transfer, the first one holding the state lock
while it cancels a slow task; the listener trace must consist of edges of the documented graph only."""
import asyncio
import json
import os
import sys
sys.path.insert(0, os.path.dirname(os.path.abspath(__file__)))
from nativelib import verdict, run     # noqa: E402
from aioslsk.transfer.model import Transfer, TransferDirection      # noqa: E402
from aioslsk.transfer import state as ST                            # noqa: E402

EDGES = json.loads(sys.argv[2]) if len(sys.argv) > 2 else None
req = json.load(open(sys.argv[1])) if len(sys.argv) > 1 else {}
EDGES = req['edges']
OPS = ['fail', 'abort', 'queue', 'initialize', 'complete', 'incomplete', 'start_transferring', 'pause']


class L:
    def __init__(self):
        self.trace = []

    async def on_transfer_state_changed(self, transfer, old, new):
        self.trace.append((old.name, new.name))


async def slow():
    try:
        await asyncio.sleep(3600)
    except asyncio.CancelledError:
        for _ in range(5):
            await asyncio.sleep(0)
        raise


async def scenario(sname, direction, op1, op2):
    t = Transfer('user', 'path', direction)
    listener = L()
    t.state_listeners.append(listener)
    t.state = getattr(ST, sname)(t)
    t._transfer_task = asyncio.create_task(slow())
    await asyncio.sleep(0)
    s = t.state
    r = await asyncio.gather(getattr(s, op1)(), getattr(s, op2)(), return_exceptions=True)
    if t._transfer_task and not t._transfer_task.done():
        t._transfer_task.cancel()
    bad = [(a, b) for a, b in listener.trace if b not in EDGES.get(a, [])]
    return bad, listener.trace, r


async def cancelled_then(sname, direction, op1, op2, turns):
    """the caller of op1 is cancelled (a timeout around abort / pause) while op1 holds the state lock; then op2 is issued"""
    t = Transfer('user', 'path', direction)
    listener = L()
    t.state_listeners.append(listener)
    t.state = getattr(ST, sname)(t)
    t._transfer_task = asyncio.create_task(slow())
    await asyncio.sleep(0)
    s = t.state
    first = asyncio.ensure_future(getattr(s, op1)())
    for _ in range(turns):
        await asyncio.sleep(0)
    first.cancel()
    try:
        await first
    except BaseException:
        pass
    try:
        r = await getattr(t.state, op2)()
    except Exception as e:      # noqa
        r = e
    for _ in range(30):
        await asyncio.sleep(0)
    if t._transfer_task and not t._transfer_task.done():
        t._transfer_task.cancel()
    bad = [(a, b) for a, b in listener.trace if b not in EDGES.get(a, [])]
    return bad, listener.trace, r


async def waiter_cancelled(sname, direction, op1, op2, op3):
    """op1 holds the state lock (it is cancelling a slow task); op2 WAITS for the lock and its caller is cancelled (a timeout); then op3"""
    t = Transfer('user', 'path', direction)
    listener = L()
    t.state_listeners.append(listener)
    t.state = getattr(ST, sname)(t)
    t._transfer_task = asyncio.create_task(slow())
    await asyncio.sleep(0)
    s = t.state
    first = asyncio.ensure_future(getattr(s, op1)())
    await asyncio.sleep(0)
    await asyncio.sleep(0)
    second = asyncio.ensure_future(getattr(s, op2)())
    await asyncio.sleep(0)
    second.cancel()
    await asyncio.sleep(0)
    third = asyncio.ensure_future(getattr(s, op3)())
    res = await asyncio.gather(first, second, third, return_exceptions=True)
    for _ in range(10):
        await asyncio.sleep(0)
    if t._transfer_task and not t._transfer_task.done():
        t._transfer_task.cancel()
    bad = [(a, b) for a, b in listener.trace if b not in EDGES.get(a, [])]
    errors = [repr(r) for r in (res[0], res[2]) if isinstance(r, BaseException) and not isinstance(r, asyncio.CancelledError)]
    return bad, listener.trace, errors


async def single(sname, direction, op):
    t = Transfer('user', 'path', direction)
    listener = L()
    t.state_listeners.append(listener)
    t.state = getattr(ST, sname)(t)
    t.start_time = 1.0
    t.local_path = None
    before = {k: v for k, v in t.__dict__.items() if k not in ('_speed_log', 'progress_snapshot')}
    s = t.state
    res = await (getattr(s, op)('why') if op in ('fail', 'abort') else getattr(s, op)())
    bad = [(a, b) for a, b in listener.trace if b not in EDGES.get(a, [])]
    why = None
    if bad:
        why = f'{sname}.{op}(): listeners saw {listener.trace}, not edges: {bad}'
    elif res is True and len(listener.trace) != 1:
        why = f'{sname}.{op}() returned True after {len(listener.trace)} observable changes'
    elif res is not True:
        after = {k: v for k, v in t.__dict__.items() if k not in ('_speed_log', 'progress_snapshot')}
        diff = [k for k in before if before[k] is not after.get(k) and before[k] != after.get(k)]
        if listener.trace or diff:
            why = f'{sname}.{op}() returned {res!r} (refused) but changed {diff} / notified {listener.trace}'
    return why


def main():
    for sname in ['VirginState', 'QueuedState', 'InitializingState', 'DownloadingState', 'UploadingState',
                  'CompleteState', 'IncompleteState', 'FailedState', 'PausedState', 'AbortedState']:
        for direction in (TransferDirection.DOWNLOAD, TransferDirection.UPLOAD):
            for op in OPS:
                why = run(single(sname, direction, op))
                if why:
                    verdict(True, why, input={'state': sname, 'direction': direction.name, 'ops': [op]})
    for sname in ['VirginState', 'QueuedState', 'InitializingState', 'DownloadingState', 'UploadingState',
                  'CompleteState', 'IncompleteState', 'FailedState', 'PausedState', 'AbortedState']:
        for direction in (TransferDirection.DOWNLOAD, TransferDirection.UPLOAD):
            for op1 in ('abort', 'pause'):
                for op2 in OPS:
                    bad, trace, r = run(scenario(sname, direction, op1, op2))
                    if bad:
                        verdict(True, f'{sname}: {op1}() holding the lock || {op2}() on the same captured state object: '
                                      f'listeners saw {trace}; not edges: {bad}; results {r}',
                                input={'state': sname, 'direction': direction.name, 'ops': [op1, op2]})
    for sname in ['QueuedState', 'InitializingState', 'DownloadingState', 'UploadingState', 'IncompleteState', 'FailedState', 'PausedState']:
        for direction in (TransferDirection.DOWNLOAD, TransferDirection.UPLOAD):
            for op1 in ('abort', 'pause'):
                for op2 in ('abort', 'pause', 'queue', 'fail'):
                    for turns in (1, 2, 3):
                        bad, trace, r = run(cancelled_then(sname, direction, op1, op2, turns))
                        if bad:
                            verdict(True, f'{sname}: the caller of {op1}() is cancelled after {turns} loop turns (it holds the state lock), then {op2}(): '
                                          f'listeners saw {trace}; not edges: {bad}; result {r}',
                                    input={'state': sname, 'direction': direction.name, 'ops': [op1 + ' (caller cancelled)', op2]})
    for sname in ['QueuedState', 'InitializingState', 'DownloadingState', 'UploadingState']:
        for direction in (TransferDirection.DOWNLOAD, TransferDirection.UPLOAD):
            for op1 in ('abort', 'pause'):
                for op2 in ('queue', 'fail'):
                    for op3 in ('fail', 'abort', 'queue'):
                        bad, trace, errors = run(waiter_cancelled(sname, direction, op1, op2, op3))
                        if bad or errors:
                            verdict(True, f'{sname}: {op1}() holds the state lock, the caller of a waiting {op2}() is cancelled, then {op3}(): listeners saw {trace}; '
                                          f'not edges: {bad}; errors {errors}',
                                    input={'state': sname, 'direction': direction.name, 'ops': [op1, op2 + ' (waiter cancelled)', op3]})
    verdict(False)


main()
